------------------------------ MODULE Trace_C02 ------------------------------
(***************************************************************************)
(* Calibration of Validate.tla against the repository's own rule fixtures  *)
(* (DESIGN.md 4.8), direction B.                                           *)
(*                                                                         *)
(* trace.ndjson (written by `gqlv record C02`):                            *)
(*   line 1    {"t":"schema","schema":{...}}   the test schema, projected   *)
(*             through the library's public API to the form of GQLBase     *)
(*   line l>1  {"t":"ev","rule":R,"doc":{...},"obs":b}   one fixture: the    *)
(*             document (abstract form), the rule the fixture runs alone   *)
(*             and whether the REAL rule reported an error                 *)
(* Every line must satisfy: the rule is unspecified on the document, or    *)
(* (Viol_R # {}) = obs, or obs is what a listed deviation predicts.        *)
(* The fixtures are green on the pinned tree, so a rejected line is an     *)
(* error of the specification.                                             *)
(***************************************************************************)
EXTENDS Validate, Json

CONSTANT Listed     \* the deviations listed as known findings

TraceLog == ndJsonDeserialize("trace.ndjson")

VARIABLE l

Raw == TraceLog[1].schema
\* directive locations as a set
SchemaOfTrace ==
  [query |-> Raw.query, mutation |-> Raw.mutation, subscription |-> Raw.subscription, types |-> Raw.types,
   directives |-> [i \in 1..Len(Raw.directives) |->
                     [name |-> Raw.directives[i].name, args |-> Raw.directives[i].args,
                      locs |-> { Raw.directives[i].locs[k] : k \in 1..Len(Raw.directives[i].locs) }]]]
SXT == IndexSchema(SchemaOfTrace)

Accepts(e) ==
  LET j == Judge(SXT, e.doc)
      us == { j.unspec[i] : i \in 1..Len(j.unspec) }
  IN \/ e.rule \in us
     \/ (j.v0[e.rule] # {}) = e.obs
     \/ \E d \in Listed : DevRule(d) = e.rule /\ (j.dv[d] # {}) = e.obs

TraceInit == l = 2

TraceNext ==
  /\ l <= Len(TraceLog)
  /\ TraceLog[l].t = "ev"
  /\ Accepts(TraceLog[l])
  /\ l' = l + 1

TraceSpec == TraceInit /\ [][TraceNext]_l

\* the whole trace was consumed (diameter counts the initial state)
TraceAccepted ==
  IF TLCGet("stats").diameter = Len(TraceLog) THEN TRUE
  ELSE PrintT(<<"REJECT at trace line", TLCGet("stats").diameter + 1>>) /\ FALSE
=============================================================================
