------------------------------- MODULE Visitor -------------------------------
(***************************************************************************)
(* C14: AST traversal visits every node once, in document order, honouring *)
(* skip and break.  Written from the property statement and the GraphQL    *)
(* AST definition, not from the library's loop.                            *)
(*                                                                         *)
(* ABSTRACT TREE.  A node is                                               *)
(*   [id, kind, label, ty, nm, sz, ch]                                     *)
(* id    pre-order number (1 = root), the identity used by policies        *)
(* kind  the AST kind ("Field", "Name", ...)                               *)
(* label what the node itself carries (a name, a literal, the operation)   *)
(* ty    the schema types that apply at this position (TypeInfo clause)    *)
(* nm    what type tracking reads off the node (its name / declared type)  *)
(* sz    number of nodes of the subtree                                    *)
(* ch    the ordered child slots <<[key, list, nodes]>>: a slot is a       *)
(*       single child (list = FALSE, one node) keyed by its field name, or *)
(*       a list of children (list = TRUE) whose elements are keyed by      *)
(*       their index.  Absent children (no alias, no type condition, an    *)
(*       empty argument list ...) are not part of the tree.  The order of  *)
(*       the slots of a kind is the order in which the children appear in  *)
(*       the source text (document order).                                 *)
(*                                                                         *)
(* EVENTS.  [ph, id, kind, key, path, anc]: phase "enter" / "leave", the   *)
(* node, the key under which its parent (or the list it is an element of)  *)
(* holds it ("" for the root), the path of keys from the root (a list      *)
(* child contributes the field name and then the index, "#0", "#1", ...)   *)
(* and the ids of the enclosing nodes, outermost first.                    *)
(*                                                                         *)
(* POLICIES.  A policy is a sequence of decisions [id, ph, act], act in    *)
(* {"skip", "break"}; every (node, phase) not mentioned continues.         *)
(*                                                                         *)
(* CONTENTS.  (a) Walk: the recursive reference walk.  (b) the iterative   *)
(* stack machine (MStart, MStepF; variables mtree mloc mpol mst; invariant *)
(* MRefines: its log is a prefix of / equals Walk).  (c) ParallelView: what*)
(* one of several parallel visitors receives; theorem ParallelIndependent. *)
(* Visitor forms and their precedence (Slot).  TreeOf: abstract documents  *)
(* as trees, with by-position static typing.  The type tracker (TrkEnter,  *)
(* TrkLeave, TrackViews) and theorem TrackerAgrees.                        *)
(***************************************************************************)
EXTENDS GQLBase, TLC

IKey(i) == CASE i = 0 -> "#0" [] i = 1 -> "#1" [] i = 2 -> "#2" [] i = 3 -> "#3" [] i = 4 -> "#4"
             [] i = 5 -> "#5" [] i = 6 -> "#6" [] i = 7 -> "#7" [] i = 8 -> "#8" [] i = 9 -> "#9"
             [] OTHER -> "#n"

\* --------------------------------------------------------------- trees
RECURSIVE SumSz(_)
SumSz(ns) == IF ns = <<>> THEN 0 ELSE Head(ns).sz + SumSz(Tail(ns))
RECURSIVE SlotsSz(_)
SlotsSz(ss) == IF ss = <<>> THEN 0 ELSE SumSz(Head(ss).nodes) + SlotsSz(Tail(ss))

One(key, n)   == [key |-> key, list |-> FALSE, nodes |-> <<n>>]
Opt(key, c, n) == [key |-> key, list |-> FALSE, nodes |-> IF c THEN <<n>> ELSE <<>>]
Many(key, ns) == [key |-> key, list |-> TRUE, nodes |-> TLCEval(ns)]

\* type references as text ("[Int!]!"); NoT = no type
NoT == [w |-> <<>>, n |-> ""]
RECURSIVE TStrW(_,_)
TStrW(w, n) == IF w = <<>> THEN n
               ELSE IF Head(w) = "NN" THEN TStrW(Tail(w), n) \o "!" ELSE "[" \o TStrW(Tail(w), n) \o "]"
TStr(t) == IF t.n = "" THEN "" ELSE TStrW(t.w, t.n)

\* nm: what a node carries that type tracking looks at: a name (field, argument, directive, input
\* field, type condition, operation) or a declared type (variable definition)
NmOf(name) == [name |-> name, type |-> NoT]
NoNm == NmOf("")

\* absent single children and empty lists are not part of the tree
MkN(kind, label, ty, nm, slots) ==
  LET ch == SelectSeq(slots, LAMBDA s : s.nodes # <<>>)
  IN [id |-> 0, kind |-> kind, label |-> label, ty |-> ty, nm |-> nm, sz |-> 1 + SlotsSz(ch), ch |-> ch]
Mk(kind, label, ty, slots) == MkN(kind, label, ty, NoNm, slots)

\* pre-order numbering: a node, then its slots in order, the elements of a list in order
RECURSIVE Number(_,_)
Number(n, id) ==
  \* (TLCEval: evaluate the function constructors once instead of at every application)
  [n EXCEPT !.id = id,
            !.ch = TLCEval([s \in 1..Len(n.ch) |->
                     [n.ch[s] EXCEPT !.nodes =
                        TLCEval([i \in 1..Len(n.ch[s].nodes) |->
                           Number(n.ch[s].nodes[i],
                                  id + 1 + SlotsSz(SubSeq(n.ch, 1, s - 1))
                                         + SumSz(SubSeq(n.ch[s].nodes, 1, i - 1)))])]])]

\* the children of a node in document order, each with its key and the path segment that leads
\* from the node to the child (a list child contributes the field name and then the index)
Items(n) ==
  SeqConcat([s \in 1..Len(n.ch) |->
     LET sl == n.ch[s] IN
     IF sl.list
     THEN [i \in 1..Len(sl.nodes) |-> [key |-> IKey(i - 1), seg |-> <<sl.key, IKey(i - 1)>>, node |-> sl.nodes[i]]]
     ELSE << [key |-> sl.key, seg |-> <<sl.key>>, node |-> sl.nodes[1]] >>])

RECURSIVE NodesOf(_)
NodesOf(n) ==    \* pre-order list of [id, kind, label, ty]
  <<[id |-> n.id, kind |-> n.kind, label |-> n.label, ty |-> n.ty]>>
    \o SeqConcat([s \in 1..Len(n.ch) |-> SeqConcat([i \in 1..Len(n.ch[s].nodes) |-> NodesOf(n.ch[s].nodes[i])])])

(* Where every node is: Locate(tree)[id] = [id, kind, key, seg, path, anc, kids]: the key under  *)
(* which it is held, the path of keys from the root, the enclosing nodes outermost first, and  *)
(* its children (ids) in document order.  These depend on the tree only, never on the visitor. *)
RECURSIVE LocNode(_,_,_,_,_)
LocNode(n, key, seg, path, anc) ==
  LET items == Items(n) IN
  << [id |-> n.id, kind |-> n.kind, nm |-> n.nm, key |-> key, seg |-> seg, path |-> path, anc |-> anc,
      kids |-> [i \in 1..Len(items) |-> items[i].node.id]] >>
    \o SeqConcat([i \in 1..Len(items) |->
          LocNode(items[i].node, items[i].key, items[i].seg, path \o items[i].seg, anc \o <<n.id>>)])

Locate(tree) == TLCEval(LocNode(tree, "", <<>>, <<>>, <<>>))

\* -------------------------------------------------------------- policies
Actions == {"continue", "skip", "break"}

Act(pol, id, ph) ==
  IF \E i \in 1..Len(pol) : pol[i].id = id /\ pol[i].ph = ph
  THEN pol[CHOOSE i \in 1..Len(pol) : pol[i].id = id /\ pol[i].ph = ph
                                       /\ \A j \in 1..(i - 1) : ~(pol[j].id = id /\ pol[j].ph = ph)].act
  ELSE "continue"

\* an event in full: what the callback is told about the node
Detail(loc, ph, id) ==
  [ph |-> ph, id |-> id, kind |-> loc[id].kind, key |-> loc[id].key, path |-> loc[id].path, anc |-> loc[id].anc]
Details(loc, w) == TLCEval([k \in 1..Len(w) |-> Detail(loc, w[k].ph, w[k].id)])

\* ------------------------------------------------------ (a) reference walk
(* enter the node; unless the visitor answered skip or break, walk the       *)
(* children in document order and leave the node.  skip on enter suppresses  *)
(* exactly the subtree and this node's leave; break (on enter or on leave)   *)
(* ends the whole traversal immediately after that event; skip on leave has  *)
(* nothing left to suppress.  WalkIds yields the (phase, node) sequence;     *)
(* Walk adds what locates each node.                                         *)
RECURSIVE WalkNode(_,_,_), WalkKids(_,_,_,_)
WalkNode(loc, id, pol) ==
  LET en == [ph |-> "enter", id |-> id]
      a  == Act(pol, id, "enter")
  IN IF a = "break" THEN [ev |-> <<en>>, brk |-> TRUE]
     ELSE IF a = "skip" THEN [ev |-> <<en>>, brk |-> FALSE]
     ELSE LET sub == WalkKids(loc, loc[id].kids, 1, pol) IN
          IF sub.brk THEN [ev |-> <<en>> \o sub.ev, brk |-> TRUE]
          ELSE [ev |-> <<en>> \o sub.ev \o <<[ph |-> "leave", id |-> id]>>,
                brk |-> Act(pol, id, "leave") = "break"]

WalkKids(loc, kids, i, pol) ==
  IF i > Len(kids) THEN [ev |-> <<>>, brk |-> FALSE]
  ELSE LET w == WalkNode(loc, kids[i], pol) IN
       IF w.brk THEN w
       ELSE LET r == WalkKids(loc, kids, i + 1, pol) IN [ev |-> w.ev \o r.ev, brk |-> r.brk]

WalkIds(loc, pol) == WalkNode(loc, 1, pol).ev
Walk(tree, pol) == LET loc == Locate(tree) IN Details(loc, WalkIds(loc, pol))

\* -------------------------------------------- (b) iterative stack machine
(* The stack holds the nodes whose children are being visited, innermost   *)
(* last: frames [id, idx] (idx children dealt with); the bottom frame is a *)
(* sentinel (id 0) whose only child is the root.  Each step delivers       *)
(* exactly one event and takes the visitor's answer a.  What locates the   *)
(* node is derived from the stack: the enclosing nodes are the frames, the *)
(* path is the concatenation of the segments by which they were entered.   *)
MKids(loc, id) == IF id = 0 THEN <<1>> ELSE loc[id].kids
MStart == [stk |-> << [id |-> 0, idx |-> 0] >>, log |-> <<>>, halt |-> FALSE]

MTop(s) == s.stk[Len(s.stk)]
MEntering(loc, s) == MTop(s).idx < Len(MKids(loc, MTop(s).id))

MAnc(stk) == [i \in 1..(Len(stk) - 1) |-> stk[i + 1].id]
MPath(loc, stk) == SeqConcat([i \in 1..(Len(stk) - 1) |-> loc[stk[i + 1].id].seg])

\* the event the machine delivers next
MNextEv(loc, s) ==
  IF MEntering(loc, s)
  THEN LET kid == MKids(loc, MTop(s).id)[MTop(s).idx + 1] IN
       [ph |-> "enter", id |-> kid, kind |-> loc[kid].kind, key |-> loc[kid].key,
        path |-> MPath(loc, s.stk) \o loc[kid].seg, anc |-> MAnc(s.stk)]
  ELSE LET id == MTop(s).id
           below == SubSeq(s.stk, 1, Len(s.stk) - 1) IN
       [ph |-> "leave", id |-> id, kind |-> loc[id].kind, key |-> loc[id].key,
        path |-> MPath(loc, s.stk), anc |-> MAnc(below)]

\* the traversal is over when only the sentinel is left and the root has been dealt with
MDone(stk) == Len(stk) = 1 /\ stk[1].idx = 1

MStepF(loc, s, a) ==
  LET e == MNextEv(loc, s)
      log2 == Append(s.log, e)
      d == Len(s.stk)
  IN IF a = "break" THEN [stk |-> s.stk, log |-> log2, halt |-> TRUE]
     ELSE IF MEntering(loc, s)
     THEN LET adv == [s.stk EXCEPT ![d].idx = @ + 1] IN
          IF a = "skip" THEN [stk |-> adv, log |-> log2, halt |-> MDone(adv)]
          ELSE [stk |-> Append(adv, [id |-> e.id, idx |-> 0]), log |-> log2, halt |-> FALSE]
     ELSE \* leaving the top frame: pop it
          LET below == SubSeq(s.stk, 1, d - 1)
          IN [stk |-> below, log |-> log2, halt |-> MDone(below)]

\* the machine driven by a policy, as a function (used for the refinement theorem on generated trees)
RECURSIVE MRunFrom(_,_,_)
MRunFrom(loc, s, pol) ==
  IF s.halt THEN s.log
  ELSE LET e == MNextEv(loc, s) IN MRunFrom(loc, MStepF(loc, s, Act(pol, e.id, e.ph)), pol)
MRun(loc, pol) == MRunFrom(loc, MStart, pol)

\* the machine as a TLA+ state machine: the visitor's answers are chosen lazily, at each
\* delivered event, with at most maxDec answers other than "continue"
VARIABLES mtree, mloc, mpol, mst
mvars == <<mtree, mloc, mpol, mst>>

\* idle: no tree loaded yet (a placeholder leaf with id 0).  The tree is loaded by a step, not by
\* the initial predicate (TLC evaluates initial states in its main thread, with a small stack).
MNoTree == [id |-> 0, kind |-> "", label |-> "", sz |-> 1, ch |-> <<>>]
MIdle == mtree = MNoTree /\ mloc = <<>> /\ mpol = <<>> /\ mst = [stk |-> <<>>, log |-> <<>>, halt |-> TRUE]

MLoad(trees) == /\ mtree.id = 0 /\ mtree' \in trees /\ mloc' = Locate(mtree')
                /\ mpol' = <<>> /\ mst' = MStart

MStepWith(maxDec) ==
  /\ ~mst.halt
  /\ \E a \in Actions :
       /\ a # "continue" => Len(mpol) < maxDec
       /\ mst' = MStepF(mloc, mst, a)
       /\ mpol' = IF a = "continue" THEN mpol
                  ELSE Append(mpol, [id |-> MNextEv(mloc, mst).id, ph |-> MNextEv(mloc, mst).ph, act |-> a])
       /\ UNCHANGED <<mtree, mloc>>

MInit == MIdle
MNextWith(trees, maxDec) == MLoad(trees) \/ MStepWith(maxDec)

\* refinement: at every moment the log is a prefix of the reference walk under the answers
\* given so far, and equals it when the machine has halted
MRefines ==
  mtree.id # 0 =>
    LET w == Walk(mtree, mpol) IN
    /\ IsPrefixOf(mst.log, w)
    /\ mst.halt => mst.log = w

\* ------------------------------------------------ theorems about a walk
EvKey(e) == <<e.ph, e.id>>

\* Declarative statement of proper nesting: every (phase, node) at most once; a leave only after
\* its enter, with the same key and enclosing nodes, and everything in between lies inside the
\* node; the enclosing nodes of an event have been entered and not yet left; the key is the
\* last element of the path.  (Cubic: evaluated on short walks only, see WellNested.)
WellNestedDef(w) ==
  /\ \A i, j \in 1..Len(w) : EvKey(w[i]) = EvKey(w[j]) => i = j
  /\ \A j \in 1..Len(w) : w[j].ph = "leave" =>
       \E i \in 1..(j - 1) :
          /\ w[i].ph = "enter" /\ w[i].id = w[j].id
          /\ w[i].key = w[j].key /\ w[i].anc = w[j].anc
          /\ \A k \in (i + 1)..(j - 1) : IsPrefixOf(w[i].anc \o <<w[i].id>>, w[k].anc)
  /\ \A k \in 1..Len(w) : \A a \in Range(w[k].anc) :
       /\ \E i \in 1..(k - 1) : w[i].ph = "enter" /\ w[i].id = a
       /\ ~\E i \in 1..(k - 1) : w[i].ph = "leave" /\ w[i].id = a
  /\ \A k \in 1..Len(w) : w[k].path # <<>> => w[k].key = w[k].path[Len(w[k].path)]

\* The same in one pass with the stack of open nodes [id, key, anc], innermost last.  A node
\* whose enter is directly followed by an event that is neither its leave nor the enter of one
\* of its children was skipped: it is closed at once.
RECURSIVE NestFold(_,_,_)
NestFold(w, k, open) ==
  IF k > Len(w) THEN TRUE
  ELSE LET e == w[k]
           top == open[Len(open)]
           skipped == /\ open # <<>> /\ k > 1 /\ w[k - 1].ph = "enter" /\ w[k - 1].id = top.id
                      /\ ~(e.ph = "leave" /\ e.id = top.id)
                      /\ ~(e.ph = "enter" /\ e.anc # <<>> /\ e.anc[Len(e.anc)] = top.id)
           op == IF skipped THEN SubSeq(open, 1, Len(open) - 1) ELSE open
       IN IF e.ph = "enter"
          THEN /\ e.anc = [i \in 1..Len(op) |-> op[i].id]
               /\ e.path # <<>> => e.key = e.path[Len(e.path)]
               /\ NestFold(w, k + 1, Append(op, [id |-> e.id, key |-> e.key, anc |-> e.anc]))
          ELSE /\ op # <<>>
               /\ op[Len(op)].id = e.id /\ op[Len(op)].key = e.key /\ op[Len(op)].anc = e.anc
               /\ NestFold(w, k + 1, SubSeq(op, 1, Len(op) - 1))

WellNested(w) == NestFold(w, 1, <<>>) /\ (Len(w) <= 16 => WellNestedDef(w))

\* positions of the enter / leave event of every node in the full (no decision) walk
\* (TLCEval: evaluate the function constructor once instead of at every application)
EnterIdx(full, sz) == TLCEval([id \in 1..sz |-> CHOOSE i \in 1..Len(full) : full[i].ph = "enter" /\ full[i].id = id])
LeaveIdx(full, sz) == TLCEval([id \in 1..sz |-> CHOOSE i \in 1..Len(full) : full[i].ph = "leave" /\ full[i].id = id])
\* the events of a walk as positions in the full walk
IdxOf(ei, li, w) == TLCEval([k \in 1..Len(w) |-> IF w[k].ph = "enter" THEN ei[w[k].id] ELSE li[w[k].id]])

\* whatever the policy, the events are events of the full walk in the same order (hence each
\* at most once); what locates a node never depends on the policy (Detail)
SubWalk(idx) == \A k \in 1..(Len(idx) - 1) : idx[k] < idx[k + 1]

\* the full walk enters and leaves every node exactly once, in pre-order
FullWalkComplete(tree, full) ==
  /\ Len(full) = 2 * tree.sz
  /\ LET enters == SelectSeq(full, LAMBDA e : e.ph = "enter")
     IN /\ Len(enters) = tree.sz
        /\ \A k \in 1..Len(enters) : enters[k].id = k

\* ------------------------------------------------- (c) parallel visitors
(* One shared traversal (which never skips and never breaks on behalf of a *)
(* single visitor) delivers its events to every visitor; a visitor that    *)
(* answered skip at the enter of node n receives nothing until n has been  *)
(* left (and not that leave), one that answered break receives nothing     *)
(* more.  ParallelIds is what visitor i receives ((phase, node) pairs),    *)
(* ParallelView the same with what locates each node.                      *)
RECURSIVE ParFold(_,_,_,_,_)
\* mode: [m |-> "on"] receiving, [m |-> "off"] broke, [m |-> "skip", n] skipping the subtree of node n
ParFold(full, k, pol, mode, acc) ==
  IF k > Len(full) THEN acc
  ELSE LET e == full[k] IN
       IF mode.m = "on"
       THEN LET a == Act(pol, e.id, e.ph) IN
            ParFold(full, k + 1, pol,
                    IF a = "break" THEN [m |-> "off", n |-> 0]
                    ELSE IF a = "skip" /\ e.ph = "enter" THEN [m |-> "skip", n |-> e.id]
                    ELSE mode,
                    Append(acc, e))
       ELSE IF mode.m = "skip" /\ e.ph = "leave" /\ e.id = mode.n
            THEN ParFold(full, k + 1, pol, [m |-> "on", n |-> 0], acc)
       ELSE ParFold(full, k + 1, pol, mode, acc)

\* fullIds: the shared traversal, WalkIds(loc, <<>>)
ParallelIds(fullIds, pols, i) == ParFold(fullIds, 1, pols[i], [m |-> "on", n |-> 0], <<>>)
ParallelView(tree, pols, i) ==
  LET loc == Locate(tree) IN Details(loc, ParallelIds(WalkIds(loc, <<>>), pols, i))

\* the property: each visitor observes what it would observe alone
ParallelIndependent(tree, pols) ==
  \A i \in 1..Len(pols) : ParallelView(tree, pols, i) = Walk(tree, pols[i])

\* --------------------------------------------------------- visitor forms
(* A visitor is given as functions in up to four tables.  kf: kinds with a *)
(* kind-specific {enter, leave} pair; kk: kinds with a kind-specific       *)
(* function (called on enter) and a leave function; ge / gl: a generic     *)
(* enter / leave function; ek / lk: kinds listed in the enter / leave kind *)
(* map.  A kind-specific entry beats the generic functions, and a generic  *)
(* function beats the kind map of its phase (the precedence documented at  *)
(* GetVisitFn).  Half-filled kind-specific entries are not used.           *)
Slot(form, kind, ph) ==
  IF kind \in form.kf THEN (IF ph = "enter" THEN "kf.enter" ELSE "kf.leave")
  ELSE IF kind \in form.kk THEN (IF ph = "enter" THEN "kk.kind" ELSE "kk.leave")
  ELSE IF ph = "enter"
       THEN (IF form.ge THEN "g.enter" ELSE IF kind \in form.ek THEN "ek" ELSE "none")
       ELSE (IF form.gl THEN "g.leave" ELSE IF kind \in form.lk THEN "lk" ELSE "none")

Observes(form, kind, ph) == Slot(form, kind, ph) # "none"

\* what a visitor of this form observes: the walk under its policy (which can only answer at
\* events it has a function for), restricted to those events
\* (w: (phase, node) pairs or full events)
Observed(form, loc, w) == SelectSeq(w, LAMBDA e : Observes(form, loc[e.id].kind, e.ph))

\* ------------------------------------------- documents as abstract trees
(* TreeOf(S, doc): the AST of an abstract executable document (GQLBase /   *)
(* GenDoc shape) with the child order of the GraphQL AST definition, and   *)
(* at every node the schema types that apply at its position (static       *)
(* typing against S): t the output type, pt the enclosing composite        *)
(* (parent) type, fd the field definition, it the input type, dir the      *)
(* directive, arg the argument definition in force.  "" = none.            *)
Ctx0 == [t |-> NoT, pt |-> "", fd |-> "", fargs |-> <<>>, it |-> NoT, dir |-> "", arg |-> ""]
TyOf(c) == [t |-> TStr(c.t), pt |-> c.pt, fd |-> c.fd, it |-> TStr(c.it), dir |-> c.dir, arg |-> c.arg]
NoTy == TyOf(Ctx0)

RootTypeOf(S, kind) == CASE kind = "query" -> S.query [] kind = "mutation" -> S.mutation [] OTHER -> S.subscription
NamedOrNone(n) == IF n = "" THEN NoT ELSE TNamed(n)
TypeIfKnown(S, t) == IF t.n # "" /\ HasType(S, t.n) THEN t ELSE NoT

\* the built-in directives (GraphQL specification):
\* @skip(if: Boolean!) @include(if: Boolean!) @deprecated(reason: String)
KnownDirs == {"skip", "include", "deprecated"}
DirArgs(d) == IF d \in {"skip", "include"} THEN << [name |-> "if", type |-> TNN(TNamed("Boolean"))] >>
              ELSE IF d = "deprecated" THEN << [name |-> "reason", type |-> TNamed("String")] >> ELSE <<>>

CompositeOrNone(S, t) == IF t.n # "" /\ HasType(S, t.n) /\ IsCompositeKind(KindOf(S, t.n)) THEN t.n ELSE ""
ListItemType(it) == LET t == Nullable(it) IN IF t.n # "" /\ IsListT(t) THEN Unwrap(t) ELSE NoT
InputFieldType(S, it, name) ==
  IF it.n # "" /\ HasType(S, it.n) /\ KindOf(S, it.n) = "INPUT_OBJECT" /\ HasName(S.types[it.n].inputs, name)
  THEN ByName(S.types[it.n].inputs, name).type ELSE NoT

CtxSelSet(S, c) == [c EXCEPT !.pt = CompositeOrNone(S, c.t)]
CtxField(S, c, name) ==
  IF c.pt # "" /\ HasField(S, c.pt, name)
  THEN LET fd == FieldDef(S, c.pt, name) IN [c EXCEPT !.t = fd.type, !.fd = name, !.fargs = fd.args]
  ELSE [c EXCEPT !.t = NoT, !.fd = "", !.fargs = <<>>]
CtxCond(S, c, on) == IF on = "" THEN c ELSE [c EXCEPT !.t = TypeIfKnown(S, TNamed(on))]
CtxDir(c, d) == [c EXCEPT !.dir = IF d \in KnownDirs THEN d ELSE ""]
CtxArg(c, name) ==
  LET defs == IF c.dir # "" THEN DirArgs(c.dir) ELSE c.fargs IN
  IF HasName(defs, name) THEN [c EXCEPT !.arg = name, !.it = ByName(defs, name).type]
  ELSE [c EXCEPT !.arg = "", !.it = NoT]
CtxVarDef(S, c, t) == [c EXCEPT !.it = TypeIfKnown(S, t)]
CtxListItem(c) == [c EXCEPT !.it = ListItemType(c.it)]
CtxObjField(S, c, name) == [c EXCEPT !.it = InputFieldType(S, c.it, name)]

NameNode(v, c) == Mk("Name", v, TyOf(c), <<>>)
NamedNode(n, c) == Mk("Named", "", TyOf(c), << One("Name", NameNode(n, c)) >>)

RECURSIVE TypeNode(_,_)
TypeNode(t, c) ==
  IF t.w = <<>> THEN NamedNode(t.n, c)
  ELSE Mk(IF Head(t.w) = "NN" THEN "NonNull" ELSE "List", "", TyOf(c), << One("Type", TypeNode(Unwrap(t), c)) >>)

RECURSIVE ValNode(_,_,_)
ValNode(S, v, c) ==
  CASE v.k = "var"   -> Mk("Variable", "", TyOf(c), << One("Name", NameNode(v.n, c)) >>)
    [] v.k = "int"   -> Mk("IntValue", v.v, TyOf(c), <<>>)
    [] v.k = "float" -> Mk("FloatValue", v.v, TyOf(c), <<>>)
    [] v.k = "str"   -> Mk("StringValue", v.v, TyOf(c), <<>>)
    [] v.k = "enum"  -> Mk("EnumValue", v.v, TyOf(c), <<>>)
    [] v.k = "bool"  -> Mk("BooleanValue", IF v.b THEN "true" ELSE "false", TyOf(c), <<>>)
    [] v.k = "list"  ->
         \* at the list literal itself the input type in force is left open ("?"): the list type
         \* and the element type are both defensible readings; its elements have the element type
         LET ci == CtxListItem(c) IN
         Mk("ListValue", "", [TyOf(c) EXCEPT !.it = "?"],
            << Many("Values", [i \in 1..Len(v.items) |-> ValNode(S, v.items[i], ci)]) >>)
    [] v.k = "obj"   ->
         Mk("ObjectValue", "", TyOf(c),
            << Many("Fields", [i \in 1..Len(v.fields) |->
                 LET cf == CtxObjField(S, c, v.fields[i].n) IN
                 MkN("ObjectField", "", TyOf(cf), NmOf(v.fields[i].n),
                     << One("Name", NameNode(v.fields[i].n, cf)), One("Value", ValNode(S, v.fields[i].v, cf)) >>)]) >>)

ArgNode(S, a, c) ==
  LET ca == CtxArg(c, a.n) IN
  MkN("Argument", "", TyOf(ca), NmOf(a.n), << One("Name", NameNode(a.n, ca)), One("Value", ValNode(S, a.v, ca)) >>)

\* abstract directives are [n, v]: @n(if: v)
DirNode(S, d, c) ==
  LET cd == CtxDir(c, d.n) IN
  MkN("Directive", "", TyOf(cd), NmOf(d.n),
      << One("Name", NameNode(d.n, cd)), Many("Arguments", << ArgNode(S, [n |-> "if", v |-> d.v], cd) >>) >>)
DirNodes(S, ds, c) == [i \in 1..Len(ds) |-> DirNode(S, ds[i], c)]

RECURSIVE SelNode(_,_,_), SelSetNode(_,_,_)
SelSetNode(S, sels, c) ==
  LET cs == CtxSelSet(S, c) IN
  Mk("SelectionSet", "", TyOf(cs), << Many("Selections", [i \in 1..Len(sels) |-> SelNode(S, sels[i], cs)]) >>)

SelNode(S, s, c) ==
  CASE s.k = "field" ->
         LET cf == CtxField(S, c, s.name) IN
         MkN("Field", "", TyOf(cf), NmOf(s.name),
             << Opt("Alias", s.alias # "", NameNode(s.alias, cf)),
                One("Name", NameNode(s.name, cf)),
                Many("Arguments", [i \in 1..Len(s.args) |-> ArgNode(S, s.args[i], cf)]),
                Many("Directives", DirNodes(S, s.dirs, cf)),
                Opt("SelectionSet", s.sel # <<>>, SelSetNode(S, s.sel, cf)) >>)
    [] s.k = "spread" ->
         Mk("FragmentSpread", "", TyOf(c),
            << One("Name", NameNode(s.name, c)), Many("Directives", DirNodes(S, s.dirs, c)) >>)
    [] s.k = "inline" ->
         LET ci == CtxCond(S, c, s.on) IN
         MkN("InlineFragment", "", TyOf(ci), NmOf(s.on),
             << Opt("TypeCondition", s.on # "", NamedNode(s.on, ci)),
                Many("Directives", DirNodes(S, s.dirs, ci)),
                One("SelectionSet", SelSetNode(S, s.sel, ci)) >>)

VarDefNode(S, vd, c) ==
  LET cv == CtxVarDef(S, c, vd.type) IN
  MkN("VariableDefinition", "", TyOf(cv), [name |-> "", type |-> vd.type],
      << One("Variable", Mk("Variable", "", TyOf(cv), << One("Name", NameNode(vd.n, cv)) >>)),
         One("Type", TypeNode(vd.type, cv)),
         Opt("DefaultValue", vd.hasDef, ValNode(S, vd.def, cv)) >>)

OpNode(S, op) ==
  LET c == [Ctx0 EXCEPT !.t = NamedOrNone(RootTypeOf(S, op.kind))] IN
  MkN("OperationDefinition", op.kind, TyOf(c), NmOf(op.kind),
      << Opt("Name", op.name # "", NameNode(op.name, c)),
         Many("VariableDefinitions", [i \in 1..Len(op.vdefs) |-> VarDefNode(S, op.vdefs[i], c)]),
         One("SelectionSet", SelSetNode(S, op.sel, c)) >>)

FragNode(S, fr) ==
  LET c == CtxCond(S, Ctx0, fr.on) IN
  MkN("FragmentDefinition", "", TyOf(c), NmOf(fr.on),
      << One("Name", NameNode(fr.name, c)),
         One("TypeCondition", NamedNode(fr.on, c)),
         One("SelectionSet", SelSetNode(S, fr.sel, c)) >>)

\* operations first, then fragment definitions (the order in which the harness prints them)
TreeOf(S, doc) ==
  Number(Mk("Document", "", NoTy,
            << Many("Definitions", [i \in 1..Len(doc.ops) |-> OpNode(S, doc.ops[i])]
                                   \o [i \in 1..Len(doc.frags) |-> FragNode(S, doc.frags[i])]) >>), 1)

\* ------------------------------------------------------- type tracking
(* The type tracker that accompanies a traversal (GraphQL reference         *)
(* TypeInfo): it is told enter(node) before the visitor's enter function    *)
(* and leave(node) after its leave function, keeps stacks, and reports the  *)
(* tops.  What it is told about a node is the node's kind and nm (the name  *)
(* / type condition / operation / declared type the node carries).          *)
(* TrackViews(.., balanced): the types reported at every event of a walk.   *)
(* balanced = TRUE is the tracker the property demands: a node whose enter  *)
(* was answered with skip is left at once (its leave will never be          *)
(* delivered).  Theorem TrackerAgrees: its reports are exactly the          *)
(* by-position types ty of TreeOf.  balanced = FALSE models the recorded    *)
(* defect D_C14_typeinfo_skip_unbalanced: the skipped node is never left.   *)
NoFd == [name |-> "", args |-> <<>>]
Trk0 == [ts |-> <<>>, pts |-> <<>>, its |-> <<>>, fds |-> <<>>, dir |-> "", arg |-> ""]
TopOr(s, dflt) == IF s = <<>> THEN dflt ELSE s[Len(s)]
Pop(s) == IF s = <<>> THEN s ELSE SubSeq(s, 1, Len(s) - 1)
TrkType(st) == TopOr(st.ts, NoT)
TrkParent(st) == TopOr(st.pts, "")
TrkInput(st) == TopOr(st.its, NoT)
TrkFd(st) == TopOr(st.fds, NoFd)

TrkEnter(S, st, kind, nm) ==
  CASE kind = "SelectionSet" -> [st EXCEPT !.pts = Append(@, CompositeOrNone(S, TrkType(st)))]
    [] kind = "Field" ->
         LET pt == TrkParent(st) IN
         IF pt # "" /\ HasField(S, pt, nm.name)
         THEN LET fd == FieldDef(S, pt, nm.name)
              IN [st EXCEPT !.fds = Append(@, [name |-> nm.name, args |-> fd.args]), !.ts = Append(@, fd.type)]
         ELSE [st EXCEPT !.fds = Append(@, NoFd), !.ts = Append(@, NoT)]
    [] kind = "Directive" -> [st EXCEPT !.dir = IF nm.name \in KnownDirs THEN nm.name ELSE ""]
    [] kind = "OperationDefinition" -> [st EXCEPT !.ts = Append(@, NamedOrNone(RootTypeOf(S, nm.name)))]
    [] kind \in {"InlineFragment", "FragmentDefinition"} ->
         [st EXCEPT !.ts = Append(@, IF nm.name # "" THEN TypeIfKnown(S, TNamed(nm.name)) ELSE TrkType(st))]
    [] kind = "VariableDefinition" -> [st EXCEPT !.its = Append(@, TypeIfKnown(S, nm.type))]
    [] kind = "Argument" ->
         LET defs == IF st.dir # "" THEN DirArgs(st.dir) ELSE TrkFd(st).args IN
         IF HasName(defs, nm.name)
         THEN [st EXCEPT !.arg = nm.name, !.its = Append(@, ByName(defs, nm.name).type)]
         ELSE [st EXCEPT !.arg = "", !.its = Append(@, NoT)]
    [] kind = "ListValue" -> [st EXCEPT !.its = Append(@, ListItemType(TrkInput(st)))]
    [] kind = "ObjectField" -> [st EXCEPT !.its = Append(@, InputFieldType(S, TrkInput(st), nm.name))]
    [] OTHER -> st

TrkLeave(st, kind) ==
  CASE kind = "SelectionSet" -> [st EXCEPT !.pts = Pop(@)]
    [] kind = "Field" -> [st EXCEPT !.fds = Pop(@), !.ts = Pop(@)]
    [] kind = "Directive" -> [st EXCEPT !.dir = ""]
    [] kind \in {"OperationDefinition", "InlineFragment", "FragmentDefinition"} -> [st EXCEPT !.ts = Pop(@)]
    [] kind = "VariableDefinition" -> [st EXCEPT !.its = Pop(@)]
    [] kind = "Argument" -> [st EXCEPT !.arg = "", !.its = Pop(@)]
    [] kind \in {"ListValue", "ObjectField"} -> [st EXCEPT !.its = Pop(@)]
    [] OTHER -> st

\* what the tracker reports (at a list literal the input type is left open, as in TreeOf)
TrkView(st, kind) ==
  [t |-> TStr(TrkType(st)), pt |-> TrkParent(st), fd |-> TrkFd(st).name,
   it |-> IF kind = "ListValue" THEN "?" ELSE TStr(TrkInput(st)), dir |-> st.dir, arg |-> st.arg]

RECURSIVE TrkFold(_,_,_,_,_,_,_,_)
TrkFold(S, loc, w, k, pol, balanced, st, acc) ==
  IF k > Len(w) THEN acc
  ELSE LET e == w[k]
           nd == loc[e.id]
       IN IF e.ph = "enter"
          THEN LET st1 == TrkEnter(S, st, nd.kind, nd.nm)
                   skipped == Act(pol, e.id, "enter") = "skip"
               IN TrkFold(S, loc, w, k + 1, pol, balanced,
                          IF skipped /\ balanced THEN TrkLeave(st1, nd.kind) ELSE st1,
                          Append(acc, TrkView(st1, nd.kind)))
          ELSE TrkFold(S, loc, w, k + 1, pol, balanced, TrkLeave(st, nd.kind), Append(acc, TrkView(st, nd.kind)))

\* w: the (phase, node) sequence of the walk under pol
TrackViews(S, loc, w, pol, balanced) == TrkFold(S, loc, w, 1, pol, balanced, Trk0, <<>>)

\* nodes: NodesOf(tree)
TrackerAgrees(S, loc, nodes, w, pol) ==
  LET tv == TrackViews(S, loc, w, pol, TRUE) IN
  \A k \in 1..Len(w) : tv[k] = nodes[w[k].id].ty

=============================================================================
