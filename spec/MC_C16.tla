------------------------------- MODULE MC_C16 -------------------------------
(***************************************************************************)
(* Binding for C16: TLC enumerates SCHEDULES and, for each, every return   *)
(* value Cancel.tla allows.  A schedule fixes the request (n resolvers,    *)
(* which of them observe the context), the kind of context event (cancel / *)
(* deadline) and the POSITION at which the harness fires it relative to    *)
(* the gates it controls:                                                  *)
(*                                                                         *)
(*   "none"    never                                                       *)
(*   "pre"     before the call (coercion gate open, resolver gates shut)   *)
(*   "coerce"  while variable coercion is blocked at gate 0                *)
(*   "res" pk  while resolver pk is blocked at its gate (gates < pk open)  *)
(*   "after"   after the last resolver passed its gate (all gates open)    *)
(*   "race"    resolver n is blocked; its gate is opened and the context   *)
(*             fired concurrently, in either order                         *)
(*   "racek" pk  resolver pk < n is blocked, every other gate is open; its *)
(*             gate is opened and the context fired concurrently: the      *)
(*             remaining resolvers run on while the context is done, so    *)
(*             completion and cancellation race with work still to do      *)
(*                                                                         *)
(* The harness' discipline is part of the model: every gate that is not    *)
(* opened up front (and, for "race", gate n) stays shut until the call has *)
(* RETURNED - so a call that waits for a blocked resolver would never      *)
(* return.  Inside these constraints all interleavings of Cancel.tla are   *)
(* explored; a vector [n, obs, pos, pk, kind, ret, out] is emitted in      *)
(* every final state.  The harness groups vectors by schedule and accepts  *)
(* an observed return value iff it is one of the emitted ones.             *)
(***************************************************************************)
EXTENDS Cancel, Json

VARIABLES pos, pk, kind
mcvars == <<vars, pos, pk, kind>>

UpFront(p, q, m) ==          \* gates the harness opens before the call
  CASE p = "none"   -> 0..m
    [] p = "pre"    -> {0}
    [] p = "coerce" -> {}
    [] p = "res"    -> 0..(q - 1)
    [] p = "after"  -> 0..m
    [] p = "race"   -> 0..(m - 1)
    [] p = "racek"  -> (0..m) \ {q}

MCInit ==
  /\ n \in 1..N
  /\ obs \in [1..n -> BOOLEAN]
  /\ pos \in {"none", "pre", "coerce", "res", "after", "race"} \cup (IF n >= 2 THEN {"racek"} ELSE {})
  /\ pk \in IF pos = "res" THEN 1..n ELSE IF pos = "racek" THEN 1..(n - 1) ELSE {0}
  /\ kind \in IF pos = "none" THEN {"cancelled"} ELSE {"cancelled", "deadline"}
  /\ ctx = "live" /\ open = UpFront(pos, pk, n)
  /\ cpc = "idle" /\ ret = NoRet
  /\ epc = "off" /\ k = 0 /\ out = <<>> /\ chan = <<>>

\* the harness has seen the exec goroutine arrive at the gate it watches
FireAllowed ==
  CASE pos = "none"   -> FALSE
    [] pos = "pre"    -> cpc = "idle"
    [] pos = "coerce" -> epc = "coerce"
    [] pos = "res"    -> epc = "res" /\ k = pk /\ pk \notin open
    [] pos = "after"  -> epc \in {"pub", "done"}
    [] pos = "race"   -> (epc = "res" /\ k = n) \/ epc \in {"pub", "done"}
    [] pos = "racek"  -> (epc = "res" /\ k >= pk) \/ epc \in {"pub", "done"}

CallAllowed == (pos = "pre") => ctx # "live"

ReleaseAllowed(g) ==
  \/ cpc = "ret"                                   \* remaining gates: only after the call returned
  \/ pos = "race" /\ g = n /\ epc = "res" /\ k = n \* the racing release
  \/ pos = "racek" /\ g = pk /\ epc = "res" /\ k = pk

MCNext ==
  /\ UNCHANGED <<pos, pk, kind>>
  /\ \/ CallAllowed /\ Call
     \/ CallerStep \/ ExecStep
     \/ FireAllowed /\ Fire(kind)
     \/ \E g \in 0..n : ReleaseAllowed(g) /\ Release(g)

MCSpec == MCInit /\ [][MCNext]_mcvars

Final == cpc = "ret" /\ epc = "done" /\ open = 0..n /\ (pos # "none" => ctx # "live")

Vec == [n |-> n, obs |-> obs, pos |-> pos, pk |-> pk, kind |-> kind, ret |-> ret.t, out |-> ret.out]

Emit == Final => PrintT(<<"VEC", ToJson(Vec)>>)

\* in-model theorems, checked on every generated state
Theorems ==
  /\ Safety
  \* whenever the context fired while an IGNORING resolver (or coercion) is blocked, only the context error is legal
  /\ (cpc = "ret" /\ pos = "coerce") => ret.t = "ctx"
  /\ (cpc = "ret" /\ pos = "res" /\ ~obs[pk]) => ret.t = "ctx"
  /\ (cpc = "ret" /\ pos = "pre" /\ \E j \in 1..n : ~obs[j]) => ret.t = "ctx"
  /\ (cpc = "ret" /\ pos = "none") => ret = Full([j \in 1..n |-> "val"])
  \* the watched gate is still shut when the call returns: it did not wait for the resolver
  /\ (pos = "coerce" /\ 0 \in open) => cpc = "ret"
  /\ (pos = "res" /\ pk \in open) => cpc = "ret"

\* under the harness' discipline every schedule ends: the call returns (although the watched gate is
\* only opened afterwards) and the background goroutine terminates
MCFair == MCSpec /\ WF_mcvars(MCNext)
EventuallyFinal == <>Final
=============================================================================
