------------------------------ MODULE MC_C09ctx ------------------------------
(* The token families of MC_C03 (fixed prefix, every continuation up to the  *)
(* bound, pruned at the first non-viable token) as an input space of C09:    *)
(* what the parser lets through in a variable-definition or field-definition *)
(* context goes on to validation, planning and execution.  Only adds the     *)
(* SCHEMA line the C09 battery needs.                                        *)
EXTENDS MC_C03
SS == INSTANCE SchemaS1
ASSUME PrintT(<<"SCHEMA", ToJson(SS!S1)>>)
=============================================================================
