------------------------------- MODULE ExecVec -------------------------------
(***************************************************************************)
(* Shared shape of execution vectors (MC_C01, MC_C04, MC_C05, MC_C13, ...): *)
(* one run = inputs + outcome table + the response the specification        *)
(* prescribes, plus the response under the named deviations that model      *)
(* recorded defects (DESIGN.md section 5) when it differs.                  *)
(***************************************************************************)
EXTENDS Exec, SchemaS1, Json, TLC

ExecDevs == {"D_C01_plan_time_directives", "D_C04_deferred_nonnull_nulls_data"}

\* The responses the implementation may produce under the deviation set ds.
\* D_C04_deferred_nonnull_nulls_data: when a field whose value was deferred (a thunk) ends
\* null at a non-null type, the failure is not stopped at the nearest nullable ancestor:
\* the whole data becomes null, with that failure's error (whichever deferred failure is
\* forced first wins, hence one variant per candidate).
Variants(D, op, inputs, table, ds) ==
  LET e == ExecuteOp(S1, D, op, inputs, table, ds) IN
  IF "D_C04_deferred_nonnull_nulls_data" \in ds /\ e.esc # <<>>
  THEN [k \in 1..Len(e.esc) |-> [e EXCEPT !.data = NullV, !.errs = <<e.esc[k]>>, !.opt = <<>>]]
  ELSE <<e>>

MkRun(D, op, inputs, inputsSeq, table, oi) ==
  LET e0 == ExecuteOp(S1, D, op, inputs, table, {})
      dss == SetToSeq(SUBSET ExecDevs \ {{}})
      alts == SeqConcat([i \in 1..Len(dss) |->
                 LET vs == Variants(D, op, inputs, table, dss[i])
                 IN SelectSeq([k \in 1..Len(vs) |-> [d |-> SetToSeq(dss[i]), exp |-> vs[k]]],
                              LAMBDA a : a.exp # e0)])
  IN [inputs |-> inputsSeq, oi |-> oi, exp |-> e0, dev |-> alts]

EnvOf(D, op, inputs, table) ==
  [S |-> S1, frags |-> FragMap(D), V |-> VarValues(S1, op.vdefs, inputs).vals, outs |-> table, dev |-> {}]

=============================================================================
