------------------------------- MODULE MC_Lazy -------------------------------
(* Bounded instances of Lazy.tla: all cells protected ("locked"/"eager"), for  *)
(* which NoRace and AtMostOneBuilder hold, and one unprotected lazily filled   *)
(* cell ("racy"), for which TLC must find the race.                            *)
EXTENDS Lazy
MCCells == {"c1", "c2"}
ProtoSafe == [c \in MCCells |-> IF c = "c1" THEN "locked" ELSE "eager"]
ProtoLRU == [c \in MCCells |-> IF c = "c1" THEN "lru" ELSE "locked"]
ProtoRWLRU == [c \in MCCells |-> IF c = "c1" THEN "rwlru" ELSE "locked"]
ProtoRacy == [c \in MCCells |-> IF c = "c1" THEN "locked" ELSE "racy"]
=============================================================================
