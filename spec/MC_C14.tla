------------------------------- MODULE MC_C14 -------------------------------
(***************************************************************************)
(* Generator and in-model checks for C14 (AST traversal).                  *)
(*                                                                         *)
(* SpecAll (SpecFixed / SpecGen are its two halves): a first step picks a  *)
(* FAMILY from the constant set Fams (what to traverse, how many decisions *)
(* per visitor, how many parallel visitors, which visitor forms).  The     *)
(* document is one of the fixed executable / type-system documents below   *)
(* or is built by the GenDoc.tla generator (every document of the bound,   *)
(* each once).  For every document TLC enumerates visitor policies LAZILY: *)
(* a policy is built as a sequence of decisions in delivery order, each    *)
(* placed at an event that is actually delivered under the decisions       *)
(* before it, so that only distinguishable policies are explored and each  *)
(* exactly once.  `pol` is the open prefix (skip decisions) of the current *)
(* visitor, `pols` the closed policies of the parallel visitors before it. *)
(* Every state whose document is complete and in which only the last       *)
(* visitor is open emits ONE vector: the document, its abstract tree       *)
(* (TreeOf) with what locates every node and the types in force, the full  *)
(* walk, and one case per final decision (none / skip / break at every     *)
(* remaining delivered event) with the event sequence Walk prescribes (as  *)
(* positions in the full walk).  All policies with at most K decisions per *)
(* visitor are covered: all single decisions, all pairs, all triples ...   *)
(* The emitting invariant also checks the theorems about the oracle.       *)
(*                                                                         *)
(* SpecMachine: the iterative stack machine of Visitor.tla on all generic  *)
(* trees of at most NGen nodes (every shape, every split of the children   *)
(* into single and list slots) and on fixed documents, the answers chosen  *)
(* lazily at each delivered event; invariant MRefines.                     *)
(***************************************************************************)
EXTENDS GenDoc, Visitor, SchemaS1, Json

CONSTANTS Fams,        \* the families of this run: a set of family records (below)
          NGen,        \* SpecMachine: size of the generic trees
          MaxDec,      \* SpecMachine: max answers other than continue
          MDocIds      \* SpecMachine: fixed documents walked besides the generic trees

(* A family is [name, src, di, k, nvis, fg, modes, deep, part, parts, root]: *)
(*   src    "gen" (GenDoc generator) | "fixed" | "sdl" (document number di) *)
(*   k      max decisions per visitor                                       *)
(*   nvis   number of parallel visitors (1 = a single visitor)              *)
(*   fg     form group "total" | "partial" | "enteronly" | "leaveonly"      *)
(*   modes  how the harness runs the visitors                               *)
(*   deep   also check WellNested, Parallel, TrackerAgrees and MRun = Walk   *)
(*          on EVERY case (costly on big trees; otherwise they are checked  *)
(*          on the full walk, and TrackerAgrees on every case with a skip)  *)
(*   part / parts   this family emits every parts-th case (Split)           *)
(*   root   0 = traverse the document, r = traverse its r-th definition     *)
VARIABLES fam, pols, pol
pvars == <<fam, pols, pol>>
allvars == <<gvars, pvars, mvars>>

Fam == fam.name
Src == fam.src
di == fam.di
K == fam.k
NVis == fam.nvis
FormGroup == fam.fg
Modes == fam.modes
Deep == fam.deep

\* how the harness runs a case: "plain" Visit(root, v); "par" Visit(root, VisitInParallel(v1..vn));
\* "ti" Visit(root, VisitWithTypeInfo(typeInfo, v)) with the types checked at every event;
\* "tipar" Visit(root, VisitWithTypeInfo(typeInfo, VisitInParallel(v1..vn)))
ModesSingle == <<"plain", "par", "ti", "tipar">>
ModesNoTypes == <<"plain", "par">>
ModesPar == <<"par", "tipar">>
ModesParNoTypes == <<"par">>

FamRec(name, src, d, k, nvis, fg, modes, deep) ==
  [name |-> name, src |-> src, di |-> d, k |-> k, nvis |-> nvis, fg |-> fg, modes |-> modes, deep |-> deep,
   part |-> 1, parts |-> 1, root |-> 0]
NoFam == FamRec("", "none", 0, 0, 0, "total", <<>>, FALSE)
\* the cases of one emitting state split over n vectors (n states, so that TLC's workers share a
\* big document): part p takes the final decisions number p, p + n, p + 2n, ...
Split(f, n) == { [f EXCEPT !.part = p, !.parts = n] : p \in 1..n }
\* the traversal starts at definition number r of the document instead of at the document node
\* ("traversing ANY AST"; keys, paths and enclosing nodes are then relative to that node)
Rooted(f, r) == [f EXCEPT !.root = r]

\* fixed executable documents: 1 = big (all node kinds), 2 = two operations / abstract types,
\* 3 = unknown names, 4 = { a }, 5 = { a o { x } }; type-system documents 1, 2
FamsFixedQuick ==
  { FamRec("fx-all", "fixed", 4, 10, 1, "total", ModesSingle, TRUE),        \* ALL policies on { a }
    FamRec("fx-k3", "fixed", 5, 3, 1, "total", ModesSingle, TRUE),
    FamRec("fx-k1", "fixed", 3, 1, 1, "total", ModesSingle, FALSE),
    FamRec("fx-partial", "fixed", 2, 1, 1, "partial", ModesSingle, FALSE),
    FamRec("fx-partial", "fixed", 5, 2, 1, "partial", ModesSingle, TRUE),
    FamRec("fx-enter", "fixed", 5, 2, 1, "enteronly", ModesSingle, TRUE),
    FamRec("fx-leave", "fixed", 5, 2, 1, "leaveonly", ModesSingle, TRUE),
    FamRec("fx-par2", "fixed", 5, 1, 2, "total", ModesPar, FALSE),
    FamRec("fx-par3", "fixed", 4, 1, 3, "total", ModesPar, FALSE),
    FamRec("fx-par2p", "fixed", 5, 1, 2, "partial", ModesPar, FALSE),
    \* traversals that start below the document: the mutation of document 2, fragment G, type O
    Rooted(FamRec("fx-root", "fixed", 2, 2, 1, "total", ModesSingle, FALSE), 2),
    Rooted(FamRec("fx-root", "fixed", 2, 1, 1, "total", ModesSingle, FALSE), 3),
    Rooted(FamRec("sdl-root", "sdl", 1, 1, 1, "total", ModesNoTypes, FALSE), 3) }
  \cup Split(FamRec("fx-k1", "fixed", 1, 1, 1, "total", ModesSingle, FALSE), 6)
  \cup Split(FamRec("fx-k1", "fixed", 2, 1, 1, "total", ModesSingle, FALSE), 3)
  \cup Split(FamRec("sdl-k1", "sdl", 1, 1, 1, "total", ModesNoTypes, FALSE), 3)
  \cup Split(FamRec("sdl-k1", "sdl", 2, 1, 1, "total", ModesNoTypes, FALSE), 3)

FamsFixedThorough ==
  { FamRec("fx-all", "fixed", 4, 10, 1, "total", ModesSingle, TRUE),
    FamRec("fx-all", "fixed", 4, 10, 1, "partial", ModesSingle, TRUE),
    FamRec("fx-k4", "fixed", 5, 4, 1, "total", ModesSingle, TRUE),
    FamRec("fx-k2", "fixed", 2, 2, 1, "total", ModesSingle, FALSE),
    FamRec("fx-k2", "fixed", 3, 2, 1, "total", ModesSingle, FALSE),
    FamRec("fx-partial", "fixed", 2, 2, 1, "partial", ModesSingle, FALSE),
    FamRec("fx-partial", "fixed", 5, 3, 1, "partial", ModesSingle, TRUE),
    FamRec("fx-enter", "fixed", 2, 2, 1, "enteronly", ModesSingle, FALSE),
    FamRec("fx-leave", "fixed", 2, 2, 1, "leaveonly", ModesSingle, FALSE),
    FamRec("fx-par2", "fixed", 5, 1, 2, "total", ModesPar, FALSE),
    FamRec("fx-par2", "fixed", 4, 2, 2, "total", ModesPar, FALSE),
    FamRec("fx-par2", "fixed", 3, 1, 2, "total", ModesPar, FALSE),
    FamRec("fx-par3", "fixed", 4, 1, 3, "total", ModesPar, FALSE),
    FamRec("fx-par3", "fixed", 5, 1, 3, "total", ModesPar, FALSE),
    FamRec("fx-par2p", "fixed", 3, 1, 2, "partial", ModesPar, FALSE),
    FamRec("sdl-par2", "sdl", 2, 1, 2, "partial", ModesParNoTypes, FALSE),
    Rooted(FamRec("fx-root", "fixed", 1, 2, 1, "total", ModesSingle, FALSE), 2),
    Rooted(FamRec("fx-root", "fixed", 2, 3, 1, "total", ModesSingle, FALSE), 2),
    Rooted(FamRec("fx-root", "fixed", 2, 2, 1, "total", ModesSingle, FALSE), 3),
    Rooted(FamRec("sdl-root", "sdl", 1, 2, 1, "total", ModesNoTypes, FALSE), 3),
    Rooted(FamRec("sdl-root", "sdl", 2, 2, 1, "partial", ModesNoTypes, FALSE), 4) }
  \cup Split(FamRec("fx-k1", "fixed", 1, 1, 1, "total", ModesSingle, FALSE), 8)
  \cup Split(FamRec("fx-partial", "fixed", 1, 1, 1, "partial", ModesSingle, FALSE), 4)
  \cup Split(Rooted(FamRec("fx-root", "fixed", 1, 1, 1, "total", ModesSingle, FALSE), 1), 6)
  \cup Split(FamRec("sdl-k1", "sdl", 1, 1, 1, "total", ModesNoTypes, FALSE), 4)
  \cup Split(FamRec("sdl-k1", "sdl", 2, 1, 1, "total", ModesNoTypes, FALSE), 4)

\* generated documents (the alphabets are constants of the run)
GenK(k) == FamRec("gen-k", "gen", 0, k, 1, "total", ModesSingle, FALSE)
GenKD(k) == FamRec("gen-k", "gen", 0, k, 1, "total", ModesSingle, TRUE)
GenPartial(k) == FamRec("gen-partial", "gen", 0, k, 1, "partial", ModesSingle, FALSE)
GenEnter(k) == FamRec("gen-enter", "gen", 0, k, 1, "enteronly", ModesSingle, FALSE)
GenPar(k, n) == FamRec("gen-par", "gen", 0, k, n, "total", ModesPar, FALSE)
FamsGenK1 == { GenK(1) }
FamsGenK2 == { GenK(2) }
FamsGenMix == { GenK(1), GenPartial(1) }
\* for small trees: all triples, two parallel visitors, partial / enter-only visitors with pairs
FamsGenSmall == { GenKD(3), GenPar(1, 2), GenPartial(2), GenEnter(2) }
FamsQuick == FamsFixedQuick \cup { GenK(1) }

\* -------------------------------------------------- generator alphabets
Sel(alias, name) == [alias |-> alias, name |-> name, args |-> <<>>]
SelA(alias, name, args) == [alias |-> alias, name |-> name, args |-> args]
SkipD(v) == [n |-> "skip", v |-> v]
InclD(v) == [n |-> "include", v |-> v]

DirsNone == { <<>> }
DirsOne  == { <<>>, <<SkipD(VarRef("v"))>> }
DirsTwo  == { <<>>, <<SkipD(VarRef("v"))>>, <<InclD(BoolV(TRUE)), SkipD(BoolV(FALSE))>> }

NoSel(t) == {}
NoSpread(i, j) == FALSE
SpreadLater(i, j) == j > i \/ i > Len(Frags)
NoFrags == <<>>
FragsF == << [name |-> "F", on |-> "Q"] >>
FragsFO == << [name |-> "F", on |-> "Q"], [name |-> "G", on |-> "O"] >>

\* V0: small trees (for pairs / triples of decisions and for sets of parallel visitors)
V0_Leafs(t) == CASE t = "Q" -> { Sel("", "a"), Sel("k", "b") }
                 [] t = "O" -> { Sel("", "x") }
                 [] OTHER -> {}
V0_Comps(t) == CASE t = "Q" -> { Sel("", "o") }
                 [] OTHER -> {}
V0_Inlines(t) == IF t = "Q" THEN { "Q" } ELSE {}

\* V1: aliases, arguments of every value shape, nested selection sets
V1_Leafs(t) == CASE t = "Q" -> { Sel("", "a"), Sel("k", "b"),
                                 SelA("", "f", <<[n |-> "x", v |-> IntV("1")]>>),
                                 SelA("g", "f", <<[n |-> "z", v |-> ListV(<<IntV("3"), VarRef("i1")>>)],
                                                  [n |-> "en", v |-> EnumV("RED")]>>),
                                 SelA("", "f", <<[n |-> "in", v |-> ObjV(<<[n |-> "r", v |-> VarRef("i3")]>>)]>>),
                                 \* list literals in a NON-NULL list position and nested lists
                                 SelA("", "gnli", <<[n |-> "nli", v |-> ListV(<<IntV("3"), VarRef("i1")>>)]>>),
                                 SelA("h", "g", <<[n |-> "lli", v |-> ListV(<<ListV(<<IntV("1"), VarRef("i1")>>)>>)],
                                                  [n |-> "lni", v |-> ListV(<<VarRef("i1")>>)]>>) }
                 \* __type / __schema exist at the query root only: below an object no field definition applies
                 [] t = "O" -> { Sel("", "x"), Sel("k", "w"), SelA("", "__type", <<[n |-> "name", v |-> StrV("O")]>>),
                                 Sel("", "__schema") }
                 [] OTHER -> {}
V1_Comps(t) == CASE t = "Q" -> { Sel("", "o"), Sel("m", "l") }
                 [] t = "O" -> { Sel("", "z") }
                 [] OTHER -> {}

\* V2: fragments (named, inline with and without type condition), abstract types, directives
V2_Leafs(t) == CASE t = "Q" -> { Sel("", "a") }
                 [] t = "O" -> { Sel("", "x") }
                 [] t = "I" -> { Sel("", "x"), Sel("", "__typename") }
                 [] t = "A" -> { Sel("", "p") }
                 [] OTHER -> {}
V2_Comps(t) == CASE t = "Q" -> { Sel("", "o"), Sel("", "i") }
                 [] OTHER -> {}
V2_Inlines(t) == CASE t = "Q" -> { "", "Q" }
                   [] t = "I" -> { "A", "" }
                   [] t = "O" -> { "" }
                   [] OTHER -> {}

BoolNN == TNN(TNamed("Boolean"))
VarDecl(n) ==
  CASE n \in {"v", "w"} -> [n |-> n, type |-> BoolNN, hasDef |-> FALSE, def |-> NullV]
    [] n = "i1" -> [n |-> n, type |-> TNamed("Int"), hasDef |-> TRUE, def |-> IntV("8")]
    [] n = "i3" -> [n |-> n, type |-> TNN(TNamed("Int")), hasDef |-> FALSE, def |-> NullV]
VDefs == LET vs == AllVars IN [i \in 1..Cardinality(vs) |-> VarDecl(SetToSeq(vs)[i])]

\* ------------------------------------------- fixed executable documents
Fld(alias, name, args, dirs, sel) ==
  [k |-> "field", id |-> 0, alias |-> alias, name |-> name, args |-> args, dirs |-> dirs, sel |-> sel]
F0(name) == Fld("", name, <<>>, <<>>, <<>>)
FS(name, sel) == Fld("", name, <<>>, <<>>, sel)
Inl(on, dirs, sel) == [k |-> "inline", id |-> 0, on |-> on, dirs |-> dirs, sel |-> sel]
Spr(name, dirs) == [k |-> "spread", id |-> 0, name |-> name, dirs |-> dirs]
A(n, v) == [n |-> n, v |-> v]
VD(n, t) == [n |-> n, type |-> t, hasDef |-> FALSE, def |-> NullV]
VDD(n, t, d) == [n |-> n, type |-> t, hasDef |-> TRUE, def |-> d]

FixedDocs ==
  << \* 1: named query, variable definitions of every type shape, every value kind, every selection kind
     [ops |-> << [kind |-> "query", name |-> "Q1",
                  vdefs |-> << VDD("v", BoolNN, BoolV(TRUE)), VD("l", TList(TNN(TNamed("Int")))),
                               VDD("in", TNamed("In"), ObjV(<<A("r", IntV("1"))>>)) >>,
                  sel |-> << Fld("k", "f", << A("x", IntV("1")), A("z", ListV(<<IntV("2"), VarRef("l")>>)),
                                             A("in", ObjV(<<A("r", VarRef("l")), A("m", StrV("s"))>>)),
                                             A("en", EnumV("GREEN")) >>,
                                 << SkipD(VarRef("v")) >>, <<>>),
                             FS("o", << F0("x"), Spr("F", << InclD(BoolV(TRUE)) >>) >>),
                             Inl("Q", << SkipD(BoolV(FALSE)) >>, << F0("a") >>),
                             Inl("", <<>>, << Fld("", "g", << A("fl", FloatV("1.5")), A("lli", ListV(<<ListV(<<IntV("1")>>)>>)) >>,
                                                  <<>>, <<>>) >>),
                             F0("b") >>] >>,
      frags |-> << [name |-> "F", on |-> "O", sel |-> << F0("y"), FS("z", << F0("w") >>) >>] >>],
     \* 2: two operations, abstract types, __typename, nested fragments
     [ops |-> << [kind |-> "query", name |-> "A1", vdefs |-> <<>>,
                  sel |-> << FS("i", << F0("x"), Inl("A", <<>>, << F0("p") >>), Inl("B", <<>>, << F0("q"), Spr("H", <<>>) >>) >>),
                             FS("u", << F0("__typename"), Inl("A", <<>>, << F0("x") >>) >>),
                             Spr("G", <<>>) >>],
                 [kind |-> "mutation", name |-> "M1", vdefs |-> <<>>,
                  sel |-> << F0("a"), FS("o", << F0("w") >>) >>] >>,
      frags |-> << [name |-> "G", on |-> "Q", sel |-> << FS("il", << F0("x"), Spr("H", <<>>) >>) >>],
                   [name |-> "H", on |-> "I", sel |-> << F0("x") >>] >>],
     \* 3: names the schema does not know (field, argument, type condition, directive argument position)
     [ops |-> << [kind |-> "query", name |-> "", vdefs |-> <<>>,
                  sel |-> << Fld("", "zz", << A("q", IntV("1")) >>, <<>>, << F0("y") >>),
                             FS("o", << F0("x"), F0("nope") >>),
                             Inl("Nope", <<>>, << F0("a") >>),
                             Fld("", "f", << A("nox", IntV("2")), A("y", IntV("3")) >>, <<>>, <<>>),
                             F0("a") >>] >>,
      frags |-> <<>>],
     \* 4: the smallest document (all policies are explored on it)
     [ops |-> << [kind |-> "query", name |-> "", vdefs |-> <<>>, sel |-> << F0("a") >>] >>, frags |-> <<>>],
     \* 5: two fields
     [ops |-> << [kind |-> "query", name |-> "", vdefs |-> <<>>, sel |-> << F0("a"), FS("o", << F0("x") >>) >>] >>,
      frags |-> <<>>]
  >>

\* ------------------------------------------------ type-system documents
(* Trees written by hand from the grammar of type-system definitions:      *)
(* children in the order in which they appear in the source text.          *)
Nm(v) == Mk("Name", v, NoTy, <<>>)
NamedT(n) == Mk("Named", "", NoTy, << One("Name", Nm(n)) >>)
SInt(v) == Mk("IntValue", v, NoTy, <<>>)
SArg(n, v) == Mk("Argument", "", NoTy, << One("Name", Nm(n)), One("Value", v) >>)
SDir(n, args) == Mk("Directive", "", NoTy, << One("Name", Nm(n)), Many("Arguments", args) >>)
SType(t) == TypeNode(t, Ctx0)
InputValueDef(n, t, hasDef, def, dirs) ==
  Mk("InputValueDefinition", "", NoTy,
     << One("Name", Nm(n)), One("Type", SType(t)), Opt("DefaultValue", hasDef, def), Many("Directives", dirs) >>)
FieldDefN(n, args, t, dirs) ==
  Mk("FieldDefinition", "", NoTy,
     << One("Name", Nm(n)), Many("Arguments", args), One("Type", SType(t)), Many("Directives", dirs) >>)
ObjectDef(n, ifaces, dirs, fields) ==
  Mk("ObjectDefinition", "", NoTy,
     << One("Name", Nm(n)), Many("Interfaces", ifaces), Many("Directives", dirs), Many("Fields", fields) >>)
OpType(op, t) == Mk("OperationTypeDefinition", op, NoTy, << One("Type", NamedT(t)) >>)
EnumVal(n, dirs) == Mk("EnumValueDefinition", "", NoTy, << One("Name", Nm(n)), Many("Directives", dirs) >>)
SDoc(defs) == Mk("Document", "", NoTy, << Many("Definitions", defs) >>)

\* (an operator with a parameter, so that TLC does not evaluate it at start-up)
SdlDocs(dummy) ==
  << [text |-> "schema { query: Q mutation: M } scalar Cu @d type O implements I @d(a: 1) { x(a: Int = 3, b: [In!]): [String!]! @d y: Int } interface I { x: String }",
      tree |-> SDoc(<<
        Mk("SchemaDefinition", "", NoTy, << Many("OperationTypes", << OpType("query", "Q"), OpType("mutation", "M") >>) >>),
        Mk("ScalarDefinition", "", NoTy, << One("Name", Nm("Cu")), Many("Directives", << SDir("d", <<>>) >>) >>),
        ObjectDef("O", << NamedT("I") >>, << SDir("d", << SArg("a", SInt("1")) >>) >>,
                  << FieldDefN("x", << InputValueDef("a", TNamed("Int"), TRUE, SInt("3"), <<>>),
                                      InputValueDef("b", TList(TNN(TNamed("In"))), FALSE, SInt("0"), <<>>) >>,
                               TNN(TList(TNN(TNamed("String")))), << SDir("d", <<>>) >>),
                     FieldDefN("y", <<>>, TNamed("Int"), <<>>) >>),
        Mk("InterfaceDefinition", "", NoTy,
           << One("Name", Nm("I")), Many("Fields", << FieldDefN("x", <<>>, TNamed("String"), <<>>) >>) >>) >>)],
     [text |-> "union U @d = A | B enum E { RED @d GREEN } input In @d { k: Int = 5 @d m: [String] } extend type O { z: Int } directive @d(a: Int) on FIELD | QUERY",
      tree |-> SDoc(<<
        Mk("UnionDefinition", "", NoTy,
           << One("Name", Nm("U")), Many("Directives", << SDir("d", <<>>) >>), Many("Types", << NamedT("A"), NamedT("B") >>) >>),
        Mk("EnumDefinition", "", NoTy,
           << One("Name", Nm("E")), Many("Values", << EnumVal("RED", << SDir("d", <<>>) >>), EnumVal("GREEN", <<>>) >>) >>),
        Mk("InputObjectDefinition", "", NoTy,
           << One("Name", Nm("In")), Many("Directives", << SDir("d", <<>>) >>),
              Many("Fields", << InputValueDef("k", TNamed("Int"), TRUE, SInt("5"), << SDir("d", <<>>) >>),
                                InputValueDef("m", TList(TNamed("String")), FALSE, SInt("0"), <<>>) >>) >>),
        Mk("TypeExtensionDefinition", "", NoTy,
           << One("Definition", ObjectDef("O", <<>>, <<>>, << FieldDefN("z", <<>>, TNamed("Int"), <<>>) >>)) >>),
        Mk("DirectiveDefinition", "", NoTy,
           << One("Name", Nm("d")), Many("Arguments", << InputValueDef("a", TNamed("Int"), FALSE, SInt("0"), <<>>) >>),
              Many("Locations", << Nm("FIELD"), Nm("QUERY") >>) >>) >>)]
  >>

\* --------------------------------------------------- the current document
DocComplete == IF Src = "gen" THEN Complete ELSE Src # "none"
TheDoc == IF Src = "gen" THEN DocOf(VDefs) ELSE FixedDocs[di]
WholeTree == IF Src = "sdl" THEN Number(SdlDocs(0)[di].tree, 1) ELSE TreeOf(S1, TheDoc)
\* the tree that is traversed: the document, or one of its definitions (renumbered from 1)
TheTree == IF fam.root = 0 THEN WholeTree ELSE Number(WholeTree.ch[1].nodes[fam.root], 1)
RootPath == IF fam.root = 0 THEN <<>> ELSE <<"Definitions", IKey(fam.root - 1)>>

RECURSIVE KindsOf(_)
KindsOf(n) == {n.kind} \cup UNION { UNION { KindsOf(n.ch[s].nodes[i]) : i \in 1..Len(n.ch[s].nodes) } : s \in 1..Len(n.ch) }

\* --------------------------------------------------------- visitor forms
FormRec(name, kf, kk, ge, gl, ek, lk) ==
  [name |-> name, kf |-> kf, kk |-> kk, ge |-> ge, gl |-> gl, ek |-> ek, lk |-> lk]

PartE == {"Field", "Name", "Argument", "Named", "ObjectDefinition", "FieldDefinition"}
PartL == {"Field", "SelectionSet", "OperationDefinition", "Document", "Named", "Directive", "FieldDefinition",
          "InputValueDefinition"}

FormsOf(kinds) ==
  CASE FormGroup = "total" ->
         << FormRec("generic", {}, {}, TRUE, TRUE, {}, {}),
            FormRec("kindmap", kinds, {}, FALSE, FALSE, {}, {}),
            FormRec("kindfn", {}, kinds, FALSE, FALSE, {}, {}),
            FormRec("kindmaps", {}, {}, FALSE, FALSE, kinds, kinds),
            \* precedence: kind-specific entries beat the generic functions that are also present
            FormRec("mixed", kinds \cap {"Field", "Name", "Directive", "FieldDefinition"},
                    kinds \cap {"SelectionSet", "Argument", "Named"}, TRUE, TRUE, {}, {}),
            FormRec("mixed2", kinds \cap {"Field", "Document"}, kinds \cap {"Name"}, FALSE, FALSE,
                    kinds \ {"Field", "Document", "Name"}, kinds \ {"Field", "Document", "Name"}),
            \* precedence documented at GetVisitFn: the generic functions beat the kind maps that are also present
            FormRec("mixed3", {}, {}, TRUE, TRUE, kinds \cap {"Field", "Name", "Argument"},
                    kinds \cap {"Field", "SelectionSet", "Document"}) >>
    [] FormGroup = "partial" ->
         LET e == kinds \cap PartE
             l == kinds \cap PartL
         IN << FormRec("p-maps", {}, {}, FALSE, FALSE, e, l),
               FormRec("p-kf", e \cap l, {}, FALSE, FALSE, e \ l, l \ e),
               FormRec("p-kk", {}, e \cap l, FALSE, FALSE, e \ l, l \ e) >>
    [] FormGroup = "enteronly" ->
         << FormRec("e-generic", {}, {}, TRUE, FALSE, {}, {}), FormRec("e-map", {}, {}, FALSE, FALSE, kinds, {}) >>
    [] FormGroup = "leaveonly" ->
         << FormRec("l-generic", {}, {}, FALSE, TRUE, {}, {}), FormRec("l-map", {}, {}, FALSE, FALSE, {}, kinds) >>

\* JSON image of a form: whether it has generic enter / leave functions, and for every kind of the
\* tree the function the specification expects to be called on enter / leave
\* ("kf.enter" "kf.leave" "kk.kind" "kk.leave" "g.enter" "g.leave" "ek" "lk" "none"); the harness
\* registers exactly these functions
FormJson(f, kinds) ==
  LET ks == SetToSeq(kinds) IN
  [name |-> f.name, ge |-> f.ge, gl |-> f.gl,
   \* the kind maps as registered (the slot table below names only the function that WINS per kind and phase)
   ek |-> SetToSeq(f.ek \cap kinds), lk |-> SetToSeq(f.lk \cap kinds),
   slots |-> [i \in 1..Len(ks) |-> <<ks[i], Slot(f, ks[i], "enter"), Slot(f, ks[i], "leave")>>]]

\* ----------------------------------------------------- lazy policies
\* a decision is [e, a]: event number e of the full walk, answer a
PolOf(full, ds) == TLCEval([i \in 1..Len(ds) |-> [id |-> full[ds[i].e].id, ph |-> full[ds[i].e].ph, act |-> ds[i].a]])

\* what depends on the document only: its tree, where every node is, the full walk, at which
\* event each node is entered / left
DocCtx ==
  LET tree == TheTree
      loc == Locate(tree)
      fullIds == WalkIds(loc, <<>>)
      kinds == KindsOf(tree)
  IN [tree |-> tree, loc |-> loc, fullIds |-> fullIds, ei |-> EnterIdx(fullIds, tree.sz), li |-> LeaveIdx(fullIds, tree.sz),
      kinds |-> kinds, forms |-> FormsOf(kinds)]

\* the (phase, node) sequence under the decisions ds
WalkOf(c, ds) == WalkIds(c.loc, PolOf(c.fullIds, ds))
\* what a visitor of the group's forms observes of a walk, as event numbers of the full walk
ObsIdx(c, w) == IdxOf(c.ei, c.li, Observed(c.forms[1], c.loc, w))

\* events at which the current visitor may still decide: delivered under pre, after its last
\* decision, and observed by the visitor's form
Cands(c, pre) ==
  LET last == IF pre = <<>> THEN 0 ELSE pre[Len(pre)].e
  IN SelectSeq(ObsIdx(c, WalkOf(c, pre)), LAMBDA i : i > last)

Finals(cand) ==
  << <<>> >> \o SeqConcat([k \in 1..Len(cand) |->
                  << <<[e |-> cand[k], a |-> "skip"]>>, <<[e |-> cand[k], a |-> "break"]>> >>])

Decide ==
  /\ Len(pol) < K - 1
  /\ LET cand == Cands(DocCtx, pol)
     IN \E k \in 1..Len(cand) : pol' = Append(pol, [e |-> cand[k], a |-> "skip"])
  /\ UNCHANGED <<fam, pols>>

ClosePol ==
  /\ Len(pols) < NVis - 1
  /\ LET fin == Finals(Cands(DocCtx, pol))
     IN \E k \in 1..Len(fin) : pols' = Append(pols, pol \o fin[k])
  /\ pol' = <<>>
  /\ UNCHANGED fam

PolNext == DocComplete /\ (Decide \/ ClosePol) /\ UNCHANGED <<gvars, mvars>>

\* generated documents: the family is fixed from the start (a small record)
InitGen == GenInit /\ fam \in Fams /\ pols = <<>> /\ pol = <<>> /\ MIdle
NextGen == \/ (pols = <<>> /\ pol = <<>> /\ GenNext /\ UNCHANGED <<pvars, mvars>>)
           \/ PolNext
SpecGen == InitGen /\ [][NextGen]_allvars

\* fixed documents: the family (and with it the document) is picked by a step, not by the initial
\* predicate: TLC evaluates invariants of initial states in its main thread, whose stack is too
\* small for the recursive operators
InitFixed == GenInit /\ fam = NoFam /\ pols = <<>> /\ pol = <<>> /\ MIdle
PickFam == fam = NoFam /\ fam' \in Fams /\ UNCHANGED <<gvars, pols, pol, mvars>>
SpecFixed == InitFixed /\ [][PickFam \/ PolNext]_allvars

\* both in one run: families with src = "gen" then run the document generator
SpecAll == InitFixed /\ [][PickFam \/ (IF Src = "gen" THEN NextGen ELSE PolNext)]_allvars

\* ----------------------------------------------------------- emission
Emitting == DocComplete /\ Len(pols) = NVis - 1

Thm(name, ok) == ok \/ (PrintT(<<"THEOREM FAILED", name>>) /\ FALSE)

\* compact images: the types in force as "t|pt|fd|it|dir|arg"; an event of the full walk as the
\* node id (enter) or 1000 + id (leave)
TyJson(ty) == ty.t \o "|" \o ty.pt \o "|" \o ty.fd \o "|" \o ty.it \o "|" \o ty.dir \o "|" \o ty.arg
NodeJson(nd, l) == [kind |-> nd.kind, label |-> nd.label, key |-> l.key, path |-> l.path, anc |-> l.anc, ty |-> TyJson(nd.ty)]
EvJson(e) == IF e.ph = "enter" THEN e.id ELSE 1000 + e.id

\* ---- recorded defects of the implementation, modelled as named deviations (DESIGN.md section 5)
\* D_C14_skip_root_panics: when the visitor handed to the traversal itself answers skip at the
\*   enter of the ROOT, the traversal does not end normally: a panic escapes (after that one
\*   callback).  A visitor inside a parallel set never makes the set answer skip.
\* D_C14_typeinfo_skip_unbalanced: when the visitor wrapped directly by the type tracker answers
\*   skip at an enter, the tracker is not told to leave that node (TrackViews(.., FALSE)).
HasEnterSkip(p) == \E i \in 1..Len(p) : p[i].act = "skip" /\ p[i].ph = "enter"
PanicModes(p) == IF NVis = 1 /\ Act(p, 1, "enter") = "skip" THEN <<"plain", "ti">> ELSE <<>>

\* the types the unbalanced tracker reports at the events the visitor observes, if they differ
\* from the types that apply (<<>> otherwise)
TyDev(c, nodes, w, p) ==
  IF ~(NVis = 1 /\ HasEnterSkip(p) /\ \E m \in 1..Len(Modes) : Modes[m] = "ti") THEN <<>>
  ELSE LET tv == TrackViews(S1, c.loc, w, p, FALSE)
           pos == SelectSeq([j \in 1..Len(w) |-> j], LAMBDA j : Observes(c.forms[1], c.loc[w[j].id].kind, w[j].ph))
           dev == [j \in 1..Len(pos) |-> TyJson(tv[pos[j]])]
           ideal == [j \in 1..Len(pos) |-> TyJson(nodes[w[pos[j]].id].ty)]
       IN IF dev = ideal THEN <<>> ELSE dev

Emit ==
  Emitting =>
    LET c == DocCtx
        tree == c.tree
        loc == c.loc
        full == Details(loc, c.fullIds)
        nodes == NodesOf(tree)
        allFin == Finals(Cands(c, pol))
        sel == SelectSeq([k \in 1..Len(allFin) |-> [k |-> k, d |-> allFin[k]]],
                         LAMBDA x : x.k % fam.parts = fam.part % fam.parts)
        fin == TLCEval([j \in 1..Len(sel) |-> sel[j].d])
        ps == TLCEval([k \in 1..Len(fin) |-> PolOf(c.fullIds, pol \o fin[k])])
        walks == TLCEval([k \in 1..Len(fin) |-> WalkIds(loc, ps[k])])
        fixedW == TLCEval([v \in 1..Len(pols) |-> WalkOf(c, pols[v])])
        allPols == TLCEval([v \in 1..Len(pols) |-> PolOf(c.fullIds, pols[v])])
        base == [fam |-> Fam, src |-> Src, root |-> RootPath,
                 nodes |-> [id \in 1..Len(nodes) |-> NodeJson(nodes[id], loc[id])],
                 full |-> [k \in 1..Len(c.fullIds) |-> EvJson(c.fullIds[k])],
                 forms |-> [i \in 1..Len(c.forms) |-> FormJson(c.forms[i], c.kinds)], modes |-> Modes,
                 fixed |-> [v \in 1..Len(pols) |-> [pol |-> pols[v], exp |-> ObsIdx(c, fixedW[v])]],
                 pre |-> pol,
                 cases |-> [k \in 1..Len(fin) |->
                              [d |-> fin[k], exp |-> ObsIdx(c, walks[k]),
                               panics |-> PanicModes(ps[k]), tydev |-> TyDev(c, nodes, walks[k], ps[k])]]]
    IN \* theorems about the oracle itself
       /\ Thm("tree smaller than 1000 nodes", tree.sz < 1000)
       /\ Thm("nodes are numbered in pre-order", \A id \in 1..Len(loc) : loc[id].id = id /\ nodes[id].id = id)
       /\ Thm("FullWalkComplete", FullWalkComplete(tree, full))
       /\ Thm("WellNested(full)", WellNested(full))
       /\ Thm("TrackerAgrees(full)", TrackerAgrees(S1, loc, nodes, c.fullIds, <<>>))
       /\ Thm("forms of a group observe the same events",
              \A i \in 1..Len(c.forms) : \A kd \in c.kinds : \A ph \in {"enter", "leave"} :
                 Observes(c.forms[i], kd, ph) = Observes(c.forms[1], kd, ph))
       /\ \A k \in 1..Len(fin) :
            /\ Thm("SubWalk", SubWalk(IdxOf(c.ei, c.li, walks[k])))
            \* the last visitor among the others: it observes what it would observe alone
            \* (for a single visitor on a big document only with deep = TRUE: costly)
            /\ (Deep \/ NVis > 1) =>
                 Thm("Parallel", ParallelIds(c.fullIds, Append(allPols, ps[k]), Len(pols) + 1) = walks[k])
            \* a tracker that leaves skipped nodes reports the types that apply, whatever the policy
            /\ (Deep \/ HasEnterSkip(ps[k])) => Thm("TrackerAgrees", TrackerAgrees(S1, loc, nodes, walks[k], ps[k]))
            /\ Deep => /\ Thm("WellNested", WellNested(Details(loc, walks[k])))
                       /\ Thm("MRun = Walk", MRun(loc, ps[k]) = Details(loc, walks[k]))
       /\ \A v \in 1..Len(pols) : Thm("Parallel(fixed)", ParallelIds(c.fullIds, allPols, v) = fixedW[v])
       /\ PrintT(<<"VEC", ToJson(IF Src = "sdl" THEN base @@ [text |-> SdlDocs(0)[di].text]
                                  ELSE base @@ [doc |-> TheDoc])>>)

\* ------------------------------------------------ the machine on its own
RECURSIVE AncSelf(_,_)
AncSelf(p, m) == IF m = 1 THEN {1} ELSE {m} \cup AncSelf(p, p[m])

\* parent vectors that are pre-order numberings of an ordered tree on 1..n
ParentVecs(n) == { p \in [2..n -> 1..(n - 1)] : \A k \in 2..n : p[k] \in AncSelf(p, k - 1) }

SKey(j) == CASE j = 1 -> "a" [] j = 2 -> "b" [] j = 3 -> "c" [] j = 4 -> "d" [] OTHER -> "e"

\* children of id in order; consecutive children flagged inl form one list slot
RECURSIVE GSlots(_,_), GNode(_,_,_,_)
GSlots(kids, nodes) ==    \* kids: sequence of [inl]; nodes: the built child nodes
  IF kids = <<>> THEN <<>>
  ELSE IF ~Head(kids).inl THEN << [key |-> SKey(Len(kids)), list |-> FALSE, nodes |-> <<Head(nodes)>>] >>
                                \o GSlots(Tail(kids), Tail(nodes))
  ELSE LET run == CHOOSE r \in 1..Len(kids) :
                    /\ \A i \in 1..r : kids[i].inl
                    /\ (r = Len(kids) \/ ~kids[r + 1].inl)
       IN << [key |-> SKey(Len(kids)), list |-> TRUE, nodes |-> SubSeq(nodes, 1, run)] >>
          \o GSlots(SubSeq(kids, run + 1, Len(kids)), SubSeq(nodes, run + 1, Len(nodes)))

GNode(n, p, l, id) ==
  LET cs == SetToSortSeq({ k \in 2..n : p[k] = id }, <)
      built == TLCEval([i \in 1..Len(cs) |-> GNode(n, p, l, cs[i])])
      m == Mk("G", "", NoTy, GSlots([i \in 1..Len(cs) |-> [inl |-> l[cs[i]]]], built))
  IN [m EXCEPT !.id = id]

GenericTrees(n) ==
  IF n = 1 THEN { [Mk("G", "", NoTy, <<>>) EXCEPT !.id = 1] }
  ELSE { GNode(n, p, l, 1) : p \in ParentVecs(n), l \in [2..n -> BOOLEAN] }

MachineTrees(ngen) ==
  UNION { GenericTrees(n) : n \in 1..ngen }
    \cup { TreeOf(S1, FixedDocs[i]) : i \in MDocIds }

InitMachine ==
  /\ sec = 0 /\ done = <<>> /\ stack = <<>> /\ nid = 0 /\ fam = NoFam /\ pols = <<>> /\ pol = <<>>
  /\ MInit
SpecMachine == InitMachine /\ [][MNextWith(MachineTrees(NGen), MaxDec) /\ UNCHANGED <<gvars, pvars>>]_allvars

\* the generic trees are numbered in pre-order by construction (sanity of the generator)
GenericNumbered == mtree.id # 0 => mtree = Number(mtree, 1)

ASSUME PrintT(<<"SCHEMA", ToJson(S1)>>)
=============================================================================
