------------------------------ MODULE Trace_C09 ------------------------------
(***************************************************************************)
(* C09: the shape every observed call of a public entry point must have.   *)
(* The harness reports each DISTINCT observation shape once (with a count  *)
(* and a sample input):                                                    *)
(*  {"t":"ev","entry":E,"parse":B,"valid":B,"data":B,"errs":B,"json":B,    *)
(*   "panic":B,"timeout":B,"n":COUNT}                                      *)
(* parse / valid are the library's own verdicts (parser.Parse,             *)
(* ValidateDocument) on the same input.                                    *)
(***************************************************************************)
EXTENDS Naturals, Sequences, FiniteSets, TLC, Json

TraceLog == ndJsonDeserialize("trace.ndjson")
VARIABLE l

ResultEntries == {"Do", "Subscribe", "Execute", "ExecutePlan", "ExecuteSubscription", "CacheGet+ExecutePlan"}

ResultShape(e) ==
  /\ ~e.panic                                   \* no panic escapes
  /\ ~e.timeout                                 \* returns (no hang, no unbounded recursion)
  /\ e.json                                     \* the result is serialisable
  /\ (e.entry \in {"Do", "Subscribe", "CacheGet+ExecutePlan"} /\ (~e.parse \/ ~e.valid)) => ~e.data
  /\ (e.entry \in ResultEntries /\ ~e.data) => e.errs          \* no data => at least one error
  /\ (e.entry = "ValidateDocument" /\ ~e.valid) => e.errs
  /\ (e.entry = "Parse" /\ ~e.parse) => e.errs

TInit == l = 1
TNext == /\ l <= Len(TraceLog)
         /\ (TraceLog[l].t = "ev" => ResultShape(TraceLog[l]))
         /\ l' = l + 1
TraceSpec == TInit /\ [][TNext]_l

TraceAccepted ==
  LET d == TLCGet("stats").diameter IN
  IF d - 1 = Len(TraceLog) THEN TRUE
  ELSE /\ PrintT(<<"REJECT at trace line", d>>) /\ FALSE
=============================================================================
