------------------------------- MODULE MC_C14E -------------------------------
(***************************************************************************)
(* Generator and in-model checks for the EDITING half of C14               *)
(* (spec/VisitorEdit.tla).                                                 *)
(*                                                                         *)
(* SpecGenE: a first step picks a FAMILY [name, t, k, modes, deep, part,   *)
(* parts] from the constant set Fams: the tree (one of Trees below: small  *)
(* documents with the lists of the GraphQL AST - definitions, selections,  *)
(* arguments, variable definitions, list values, directives - and a        *)
(* selection set traversed on its own), the number k of decisions, the     *)
(* modes ("policy": the policy alone; "printer": every other leave is      *)
(* answered with a text, the way the library's printer uses the visitor).  *)
(* Policies are enumerated LAZILY as in MC_C14: a policy is a sequence of  *)
(* decisions in delivery order, each placed at an event that is actually   *)
(* delivered under the decisions before it - including the events INSIDE a *)
(* replacement.  `pre` is the open prefix (no break).  The decisions on    *)
(* offer at an event: skip (enter), break, delete, update by a renumbered  *)
(* relabelled copy of the node the callback is handed, update by such a    *)
(* copy with every list cut down to its first element.  Every state emits  *)
(* ONE vector: the tree, the prefix, and one case per final decision (none *)
(* / each decision at each remaining delivered event) with, per mode, the  *)
(* events, the result and - for every set of recorded deviations that has  *)
(* a say in the case and changes the outcome - the deviated outcome (result*)
(* and the state the ORIGINAL tree is left in).  The emitting invariant    *)
(* also checks the theorems about the oracle on every case.                *)
(*                                                                         *)
(* SpecEMachine: the small-step machine of VisitorEdit.tla on all generic  *)
(* trees of at most NGen nodes (every shape, every split of the children   *)
(* into single and list slots) and on the fixed trees MTrees, the answers  *)
(* (continue / skip / break / delete / update copy / update trim) chosen   *)
(* lazily at each delivered event; invariant ERefines.                     *)
(***************************************************************************)
EXTENDS VisitorEdit, Json

CONSTANTS Fams,        \* the families of this run (a set of family records)
          NGen,        \* SpecEMachine: size of the generic trees
          MaxDec,      \* SpecEMachine: max answers other than continue
          MTrees       \* SpecEMachine: fixed trees walked besides the generic ones

VARIABLES fam, pre
gevars == <<fam, pre>>
allvars == <<gevars, evars, mvars>>

\* ------------------------------------------------------------------ trees
\* (Visitor.tla shape, so that the link theorem NoEditIsWalk can be checked on them; children in
\* the order in which they appear in the source text)
N(v) == Mk("Name", v, NoTy, <<>>)
IntN(v) == Mk("IntValue", v, NoTy, <<>>)
ListN(vs) == Mk("ListValue", "", NoTy, << Many("Values", vs) >>)
Arg(n, v) == Mk("Argument", "", NoTy, << One("Name", N(n)), One("Value", v) >>)
Dir(n, args) == Mk("Directive", "", NoTy, << One("Name", N(n)), Many("Arguments", args) >>)
SelS(sels) == Mk("SelectionSet", "", NoTy, << Many("Selections", sels) >>)
Fd(alias, name, args, dirs, sels) ==
  Mk("Field", "", NoTy, << Opt("Alias", alias # "", N(alias)), One("Name", N(name)), Many("Arguments", args),
                          Many("Directives", dirs), Opt("SelectionSet", sels # <<>>, SelS(sels)) >>)
F0(name) == Fd("", name, <<>>, <<>>, <<>>)
NamedT(n) == Mk("Named", "", NoTy, << One("Name", N(n)) >>)
VarN(n) == Mk("Variable", "", NoTy, << One("Name", N(n)) >>)
VDef(n, t, hasDef, def) ==
  Mk("VariableDefinition", "", NoTy, << One("Variable", VarN(n)), One("Type", t), Opt("DefaultValue", hasDef, def) >>)
Op(kind, name, vdefs, sels) ==
  Mk("OperationDefinition", kind, NoTy, << Opt("Name", name # "", N(name)), Many("VariableDefinitions", vdefs),
                                          One("SelectionSet", SelS(sels)) >>)
Frag(name, on, sels) ==
  Mk("FragmentDefinition", "", NoTy, << One("Name", N(name)), One("TypeCondition", NamedT(on)), One("SelectionSet", SelS(sels)) >>)
Doc(defs) == Mk("Document", "", NoTy, << Many("Definitions", defs) >>)
Q(sels) == Doc(<< Op("query", "", <<>>, sels) >>)

\* (an operator with a parameter, so that TLC does not evaluate it at start-up)
VTrees(dummy) ==
  << \* 1: { a }
     Q(<< F0("a") >>),
     \* 2: { a b c }   (first / middle / last element of a list, several in one list)
     Q(<< F0("a"), F0("b"), F0("c") >>),
     \* 3: { k: f(x: 1, y: 2) o { x } }   (single children, an argument list, values in slots of interface type, nesting)
     Q(<< Fd("k", "f", << Arg("x", IntN("1")), Arg("y", IntN("2")) >>, <<>>, <<>>), Fd("", "o", <<>>, <<>>, << F0("x") >>) >>),
     \* 4: query Q($v: Int = 1) { a } fragment F on T { b }   (definitions, variable definitions, type and default value)
     Doc(<< Op("query", "Q", << VDef("v", NamedT("Int"), TRUE, IntN("1")) >>, << F0("a") >>), Frag("F", "T", << F0("b") >>) >>),
     \* 5: { f(z: [1, 2, 3]) g }   (a list of values)
     Q(<< Fd("", "f", << Arg("z", ListN(<< IntN("1"), IntN("2"), IntN("3") >>)) >>, <<>>, <<>>), F0("g") >>),
     \* 6: { a @d(p: 1) @e b }   (directives)
     Q(<< Fd("", "a", <<>>, << Dir("d", << Arg("p", IntN("1")) >>), Dir("e", <<>>) >>, <<>>), F0("b") >>),
     \* 7: the selection set { a b } traversed on its own (the root is not a document)
     SelS(<< F0("a"), F0("b") >>),
     \* 8: { a { b { c d } } e }   (nesting: child and ancestors edited)
     Q(<< Fd("", "a", <<>>, <<>>, << Fd("", "b", <<>>, <<>>, << F0("c"), F0("d") >>) >>), F0("e") >>),
     \* 9: the field k: f(x: 1, y: 2) traversed on its own (single children next to a list, values in interface slots)
     Fd("k", "f", << Arg("x", IntN("1")), Arg("y", IntN("2")) >>, <<>>, <<>>)
  >>

VTree(t) == Number(VTrees(0)[t], 1)
TheVTree == VTree(fam.t)
TheTree == Lean(TheVTree)

\* ------------------------------------------------------------- families
FamRec(name, t, k, modes, deep) == [name |-> name, t |-> t, k |-> k, modes |-> modes, deep |-> deep, part |-> 1, parts |-> 1]
NoFam == FamRec("", 0, 0, <<>>, FALSE)
Split(f, n) == { [f EXCEPT !.part = p, !.parts = n] : p \in 1..n }
Both == <<"policy", "printer">>
Pol == <<"policy">>

\* quick: every single decision on every tree (both modes); every pair on { a b c }, on a bare selection
\* set and on a bare field with alias and arguments; every triple on { a }
FamsQuick ==
  { FamRec("e-k3", 1, 3, Pol, TRUE),
    FamRec("e-k1", 1, 1, Both, TRUE), FamRec("e-k1", 2, 1, Both, TRUE), FamRec("e-k1", 5, 1, Both, TRUE),
    FamRec("e-k1", 6, 1, Both, TRUE), FamRec("e-k1", 7, 1, Both, TRUE), FamRec("e-k1", 9, 1, Both, TRUE),
    FamRec("e-k2", 2, 2, Pol, TRUE), FamRec("e-k2", 7, 2, Both, TRUE), FamRec("e-k2", 9, 2, Pol, TRUE) }
  \cup Split(FamRec("e-k1", 3, 1, Both, TRUE), 3) \cup Split(FamRec("e-k1", 4, 1, Both, TRUE), 3)
  \cup Split(FamRec("e-k1", 8, 1, Both, TRUE), 2)

\* thorough: every pair on every tree (both modes), every triple on { a } and on the bare selection set (both
\* modes), on { a b c } and on the bare field (policy mode)
FamsThorough ==
  { FamRec("e-k3", 1, 3, Both, TRUE), FamRec("e-k3", 7, 3, Both, TRUE),
    FamRec("e-k3", 2, 3, Pol, TRUE), FamRec("e-k3", 9, 3, Pol, TRUE),
    FamRec("e-k2", 2, 2, Both, TRUE), FamRec("e-k2", 3, 2, Both, TRUE), FamRec("e-k2", 4, 2, Both, TRUE),
    FamRec("e-k2", 5, 2, Both, TRUE), FamRec("e-k2", 6, 2, Both, TRUE), FamRec("e-k2", 8, 2, Both, TRUE),
    FamRec("e-k2", 9, 2, Both, TRUE) }

\* --------------------------------------------------------- lazy policies
\* the decisions on offer at event e (non-final: everything but break)
Updates(e) ==
  LET cp == Repl(e.nd, e.ph, "copy")
      tr == Repl(e.nd, e.ph, "trim")
  IN << [id |-> e.id, ph |-> e.ph, act |-> "update", v |-> cp] >>
     \o (IF tr.ch # cp.ch THEN << [id |-> e.id, ph |-> e.ph, act |-> "update", v |-> tr] >> ELSE <<>>)
NonFinalAt(e) ==
  (IF e.ph = "enter" THEN << [id |-> e.id, ph |-> e.ph, act |-> "skip", v |-> ENone] >> ELSE <<>>)
  \o << [id |-> e.id, ph |-> e.ph, act |-> "delete", v |-> ENone] >> \o Updates(e)
FinalAt(e) == << [id |-> e.id, ph |-> e.ph, act |-> "break", v |-> ENone] >> \o NonFinalAt(e)

\* the events at which the next decision may be placed: delivered under p, after its last decision
Cands(tree, p) ==
  LET ev == EWalk(tree, p, "policy", {}).ev
      last == IF p = <<>> THEN 0
              ELSE CHOOSE k \in 1..Len(ev) : ev[k].id = p[Len(p)].id /\ ev[k].ph = p[Len(p)].ph
  IN SubSeq(ev, last + 1, Len(ev))

Finals(cand) == << <<>> >> \o SeqConcat([k \in 1..Len(cand) |-> [j \in 1..Len(FinalAt(cand[k])) |-> << FinalAt(cand[k])[j] >>]])

Decide ==
  /\ fam # NoFam /\ Len(pre) < fam.k - 1
  /\ LET cand == Cands(TheTree, pre)
     IN \E k \in 1..Len(cand) : \E d \in Range(NonFinalAt(cand[k])) : pre' = Append(pre, d)
  /\ UNCHANGED <<fam, evars, mvars>>

PickFam == fam = NoFam /\ fam' \in Fams /\ UNCHANGED <<pre, evars, mvars>>

InitGenE == fam = NoFam /\ pre = <<>> /\ EIdle /\ MIdle
SpecGenE == InitGenE /\ [][PickFam \/ Decide]_allvars

\* ----------------------------------------------------------- emission
Thm(name, ok) == ok \/ (PrintT(<<"THEOREM FAILED", name>>) /\ FALSE)

\* compact images.  A node: <<id, kind, label, slots>>, a slot <<key, list, nodes>>; a text a printing
\* visitor left: <<0, "#str", text, <<>>>>.  An event: <<0 enter | 1 leave, id, key, enclosing node ids, the ids
\* of the children of the node the callback is handed (ascending; 0 for a text)>>: on leave these show
\* that the callback sees the edits of the children already applied.
RECURSIVE TJ(_)
TJ(n) == IF n.rep = "str" THEN <<0, "#str", n.label, <<>> >>
         ELSE <<n.id, n.kind, n.label,
                [s \in 1..Len(n.ch) |-> <<n.ch[s].key, n.ch[s].list, [i \in 1..Len(n.ch[s].nodes) |-> TJ(n.ch[s].nodes[i])]>>]>>
KidIds(n) == UNION { { IF n.ch[s].nodes[i].rep = "str" THEN 0 ELSE n.ch[s].nodes[i].id : i \in 1..Len(n.ch[s].nodes) } : s \in 1..Len(n.ch) }
EvJ(e) == <<IF e.ph = "enter" THEN 0 ELSE 1, e.id, e.key, e.anc, SetToSortSeq(KidIds(e.nd), <)>>
EvsJ(ev) == [k \in 1..Len(ev) |-> EvJ(ev[k])]
\* without what the callback is handed
EvPlain(ev) == [k \in 1..Len(ev) |-> <<ev[k].ph, ev[k].id, ev[k].key, ev[k].anc>>]
DecJ(d) == [i |-> d.id, p |-> d.ph, a |-> d.act, v |-> IF d.act = "update" THEN <<TJ(d.v)>> ELSE <<>>]
DecsJ(ds) == [k \in 1..Len(ds) |-> DecJ(ds[k])]
ResJ(r) == [k |-> r.k, t |-> IF r.k = "tree" THEN <<TJ(r.t)>> ELSE <<>>]

DevName(d) == CASE d = "inplace" -> "D_C14_edit_in_place"
                [] d = "ifacelost" -> "D_C14_edit_iface_slot_lost"
                [] d = "maplost" -> "D_C14_edit_after_map_lost"
                [] d = "rootdelpanic" -> "D_C14_delete_root_on_enter_panics"

\* what of an outcome is observable (the representation is not)
StripRes(r) == IF r.k = "tree" THEN ResTree(StripRep(r.t)) ELSE r
ObsKey(w) == <<StripRes(w.res), StripRep(w.orig), w.panic, EvsJ(w.ev)>>

\* one mode of one case: the specified outcome, and the outcome under every set of deviations
\* that has a say in this traversal and changes it (smallest sets first; a set is listed only
\* if no proper subset already produces its outcome).  [ok: the theorems hold, json]
RunR(tree, p, mode, deep) ==
  LET w0 == EWalk(tree, p, mode, {})
      subs == SUBSET w0.hit
      outs == TLCEval([D \in subs |-> IF D = {} THEN w0 ELSE EWalk(tree, p, mode, D)])
      keys == TLCEval([D \in subs |-> ObsKey(outs[D])])
      alts == { D \in subs : D # {} /\ \A D2 \in SUBSET D : D2 # D => keys[D2] # keys[D] }
      altSeq == SeqConcat([c \in 1..4 |-> SetToSeq({ D \in alts : Cardinality(D) = c })])
      AltJ(D) == LET w == outs[D] IN
                 [devs |-> [i \in 1..Cardinality(D) |-> DevName(SetToSeq(D)[i])],
                  res |-> IF StripRes(w.res) = StripRes(w0.res) THEN <<>> ELSE <<ResJ(w.res)>>,
                  orig |-> IF StripRep(w.orig) = tree THEN <<"same">>
                           ELSE IF w.res.k = "tree" /\ StripRep(w.orig) = StripRep(w.res.t) THEN <<"res">>
                           ELSE <<"tree", TJ(w.orig)>>,
                  \* the events, if the callbacks are handed other nodes than specified (else the first nev specified ones)
                  ev |-> IF IsPrefixOf(EvsJ(w.ev), EvsJ(w0.ev)) THEN <<>> ELSE EvsJ(w.ev),
                  nev |-> Len(w.ev), panic |-> w.panic]
  IN [ok |-> /\ Thm("the specified traversal leaves the original untouched and does not panic", w0.orig = tree /\ ~w0.panic)
             /\ Thm("EventsDistinct", EventsDistinct(w0.ev))
             /\ deep => Thm("machine = reference", EMachineAgrees(tree, p, mode, w0))
             /\ (deep /\ mode = "policy") => Thm("ExactlyTheEdits", ExactlyTheEdits(tree, p, w0))
             /\ \A D \in subs : Thm("deviations do not change which events are delivered",
                                     LET a == EvPlain(outs[D].ev)
                                         b == EvPlain(w0.ev)
                                     IN IsPrefixOf(a, b) /\ (~outs[D].panic => a = b)),
      json |-> [mode |-> mode, ev |-> EvsJ(w0.ev), res |-> ResJ(w0.res), alts |-> [i \in 1..Len(altSeq) |-> AltJ(altSeq[i])]]]

NoEdits(p) == \A i \in 1..Len(p) : p[i].act \in {"skip", "break"}
PlainPol(p) == [i \in 1..Len(p) |-> [id |-> p[i].id, ph |-> p[i].ph, act |-> p[i].act]]

Emitting == fam # NoFam
Emit ==
  Emitting =>
    LET tree == TheTree
        allFin == Finals(Cands(tree, pre))
        sel == SelectSeq([k \in 1..Len(allFin) |-> [k |-> k, d |-> allFin[k]]], LAMBDA x : x.k % fam.parts = fam.part % fam.parts)
        fin == TLCEval([j \in 1..Len(sel) |-> sel[j].d])
        \* (TLCEval at both levels: a function constructor is otherwise re-evaluated at every application)
        runs == TLCEval([k \in 1..Len(fin) |-> TLCEval([m \in 1..Len(fam.modes) |-> RunR(tree, pre \o fin[k], fam.modes[m], fam.deep)])])
    IN /\ Thm("tree smaller than 50 nodes", ESize(tree) < 50)
       /\ \A k \in 1..Len(fin) : NoEdits(pre \o fin[k]) => Thm("NoEditIsWalk", NoEditIsWalk(TheVTree, PlainPol(pre \o fin[k])))
       /\ \A k \in 1..Len(fin) : \A m \in 1..Len(fam.modes) : runs[k][m].ok
       /\ PrintT(<<"VEC", ToJson([fam |-> fam.name, tn |-> fam.t, tree |-> TJ(tree), pre |-> DecsJ(pre), modes |-> fam.modes,
                                   cases |-> [k \in 1..Len(fin) |->
                                                [d |-> DecsJ(fin[k]),
                                                 runs |-> [m \in 1..Len(fam.modes) |-> runs[k][m].json]]]])>>)

\* ------------------------------------------------ the machine on its own
RECURSIVE AncSelf(_,_)
AncSelf(p, m) == IF m = 1 THEN {1} ELSE {m} \cup AncSelf(p, p[m])
\* parent vectors that are pre-order numberings of an ordered tree on 1..n
ParentVecs(n) == { p \in [2..n -> 1..(n - 1)] : \A k \in 2..n : p[k] \in AncSelf(p, k - 1) }
SKey(j) == CASE j = 1 -> "a" [] j = 2 -> "b" [] j = 3 -> "c" [] j = 4 -> "d" [] OTHER -> "e"

\* children of id in order; consecutive children flagged inl form one list slot
RECURSIVE GSlots(_,_), GNode(_,_,_,_)
GSlots(kids, nodes) ==
  IF kids = <<>> THEN <<>>
  ELSE IF ~Head(kids).inl THEN << [key |-> SKey(Len(kids)), list |-> FALSE, nodes |-> <<Head(nodes)>>] >>
                                \o GSlots(Tail(kids), Tail(nodes))
  ELSE LET run == CHOOSE r \in 1..Len(kids) :
                    /\ \A i \in 1..r : kids[i].inl
                    /\ (r = Len(kids) \/ ~kids[r + 1].inl)
       IN << [key |-> SKey(Len(kids)), list |-> TRUE, nodes |-> SubSeq(nodes, 1, run)] >>
          \o GSlots(SubSeq(kids, run + 1, Len(kids)), SubSeq(nodes, run + 1, Len(nodes)))

GNode(n, p, l, id) ==
  LET cs == SetToSortSeq({ k \in 2..n : p[k] = id }, <)
      built == TLCEval([i \in 1..Len(cs) |-> GNode(n, p, l, cs[i])])
  IN [id |-> id, kind |-> "G", label |-> "g", rep |-> "node", ch |-> GSlots([i \in 1..Len(cs) |-> [inl |-> l[cs[i]]]], built)]

GenericTrees(n) ==
  IF n = 1 THEN { [id |-> 1, kind |-> "G", label |-> "g", rep |-> "node", ch |-> <<>>] }
  ELSE { GNode(n, p, l, 1) : p \in ParentVecs(n), l \in [2..n -> BOOLEAN] }

MachineTrees(ngen) == UNION { GenericTrees(n) : n \in 1..ngen } \cup { Lean(VTree(t)) : t \in MTrees }

InitEMachine == fam = NoFam /\ pre = <<>> /\ EIdle /\ MIdle
SpecEMachine == InitEMachine /\ [][ENextWith(MachineTrees(NGen), MaxDec) /\ UNCHANGED <<gevars, mvars>>]_allvars
=============================================================================
